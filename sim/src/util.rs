//! Small deterministic helpers: PRNG, stateless hash, payload PRF, event hasher.

#[inline]
pub fn splitmix64(mut x: u64) -> u64 {
    x = x.wrapping_add(0x9E3779B97F4A7C15);
    let mut z = x;
    z = (z ^ (z >> 30)).wrapping_mul(0xBF58476D1CE4E5B9);
    z = (z ^ (z >> 27)).wrapping_mul(0x94D049BB133111EB);
    z ^ (z >> 31)
}

/// Stateless decision hash: the same (seed, a, b) always gives the same value.
#[inline]
pub fn h3(seed: u64, a: u64, b: u64) -> u64 {
    splitmix64(splitmix64(seed ^ a.wrapping_mul(0xA24BAED4963EE407)) ^ b.wrapping_mul(0x9FB21C651E98DF25))
}

/// Uniform float in [0,1) from a hash value.
#[inline]
pub fn unit(h: u64) -> f64 {
    (h >> 11) as f64 / (1u64 << 53) as f64
}

/// Sequential PRNG for scenario generation (splitmix64 stream).
#[derive(Clone, Debug)]
pub struct Rng(pub u64);

impl Rng {
    pub fn new(seed: u64) -> Self {
        Rng(splitmix64(seed ^ 0x5151_5151_5151_5151))
    }
    pub fn next(&mut self) -> u64 {
        self.0 = self.0.wrapping_add(0x9E3779B97F4A7C15);
        let mut z = self.0;
        z = (z ^ (z >> 30)).wrapping_mul(0xBF58476D1CE4E5B9);
        z = (z ^ (z >> 27)).wrapping_mul(0x94D049BB133111EB);
        z ^ (z >> 31)
    }
    /// Uniform in [0, n) (n > 0).
    pub fn below(&mut self, n: u64) -> u64 {
        debug_assert!(n > 0);
        self.next() % n
    }
    /// Uniform in [lo, hi] inclusive.
    pub fn range(&mut self, lo: u64, hi: u64) -> u64 {
        if hi <= lo {
            return lo;
        }
        lo + self.below(hi - lo + 1)
    }
    pub fn chance(&mut self, p: f64) -> bool {
        unit(self.next()) < p
    }
    pub fn pick<'a, T>(&mut self, xs: &'a [T]) -> &'a T {
        &xs[self.below(xs.len() as u64) as usize]
    }
    pub fn unit(&mut self) -> f64 {
        unit(self.next())
    }
    /// Log-uniform integer in [lo, hi].
    pub fn log_range(&mut self, lo: u64, hi: u64) -> u64 {
        let lo_f = (lo.max(1)) as f64;
        let hi_f = (hi.max(1)) as f64;
        let x = (lo_f.ln() + self.unit() * (hi_f.ln() - lo_f.ln())).exp();
        (x.round() as u64).clamp(lo, hi)
    }
}

/// Keyed payload stream: byte i of stream `key` is a pure function of (key, i).
#[inline]
pub fn prf_byte(key: u64, i: u64) -> u8 {
    let w = splitmix64(key ^ (i >> 3).wrapping_mul(0xD6E8FEB86659FD93));
    (w >> ((i & 7) * 8)) as u8
}

pub fn prf_fill(key: u64, off: u64, out: &mut [u8]) {
    for (k, b) in out.iter_mut().enumerate() {
        *b = prf_byte(key, off.wrapping_add(k as u64));
    }
}

/// First index at which `data` deviates from the PRF stream starting at `off`.
pub fn prf_mismatch(key: u64, off: u64, data: &[u8]) -> Option<usize> {
    data.iter()
        .enumerate()
        .find(|(k, b)| **b != prf_byte(key, off.wrapping_add(*k as u64)))
        .map(|(k, _)| k)
}

/// FNV-1a 64 event hasher (deterministic across processes).
#[derive(Clone, Copy, Debug)]
pub struct Fnv(pub u64);

impl Default for Fnv {
    fn default() -> Self {
        Fnv(0xcbf29ce484222325)
    }
}

impl Fnv {
    #[inline]
    pub fn bytes(&mut self, b: &[u8]) {
        for x in b {
            self.0 ^= *x as u64;
            self.0 = self.0.wrapping_mul(0x100000001b3);
        }
    }
    #[inline]
    pub fn u64(&mut self, v: u64) {
        self.bytes(&v.to_le_bytes());
    }
    pub fn str(&mut self, s: &str) {
        self.u64(s.len() as u64);
        self.bytes(s.as_bytes());
    }
}

/// 16-bit modular helpers used by the oracles (independent of the library's arithmetic).
#[inline]
pub fn seq_diff(a: u16, b: u16) -> i32 {
    (a.wrapping_sub(b) as i16) as i32
}
#[inline]
pub fn seq_lt(a: u16, b: u16) -> bool {
    seq_diff(a, b) < 0
}
#[inline]
pub fn seq_le(a: u16, b: u16) -> bool {
    seq_diff(a, b) <= 0
}
