//! Scripted peer: a simulator-owned raw uTP speaker with its own codec and a few lines of
//! reference state. It plays a compliant or hostile sender/receiver from a seeded script.
//! All sequence addressing in scripts is relative, so scripts are ISN-independent.
use std::{collections::BTreeMap, time::Duration};

use serde::{Deserialize, Serialize};

use crate::{
    codec::{self, Pkt},
    hist::{self, Ev},
    net::RawEndpoint,
    util::{prf_fill, seq_diff},
    world::{Ctx, Sock},
};

#[derive(Clone, Copy, Debug, PartialEq, Eq, Serialize, Deserialize, Default)]
pub enum PeerRole {
    /// The peer sends the SYN; the real endpoint accepts.
    #[default]
    Connector,
    /// The real endpoint connects; the peer answers the SYN.
    Acceptor,
}

#[derive(Clone, Copy, Debug, PartialEq, Serialize, Deserialize, Default)]
pub enum AckMode {
    /// Never acknowledge automatically (the script does it).
    #[default]
    Manual,
    /// Acknowledge every received data packet at the instant it arrives.
    Immediate,
    /// Acknowledge `ms` after a data packet arrived (one ACK per arrival).
    Delayed(u64),
    /// Acknowledge every n-th data packet at once.
    EveryN(u32),
}

#[derive(Clone, Debug, PartialEq, Serialize, Deserialize, Default)]
pub struct AutoCfg {
    pub ack: AckMode,
    /// Attach a selective-ACK extension when data is held out of order.
    pub sack: bool,
    /// Acknowledge the endpoint's FIN and answer it with the peer's own FIN.
    pub answer_fin: bool,
    /// Receive-buffer model: the advertised window is `buf - undrained bytes`; None = fixed `wnd`.
    pub rx_model: Option<RxModel>,
}

#[derive(Clone, Copy, Debug, PartialEq, Serialize, Deserialize)]
pub struct RxModel {
    pub buf: u32,
    /// Bytes the peer "application" drains per millisecond (0 = only by script step Drain).
    pub drain_per_ms: u32,
}

#[derive(Clone, Debug, PartialEq, Serialize, Deserialize)]
pub enum SackSpec {
    /// From the peer's reference state.
    Auto,
    None,
    /// Explicit bits (bit i = ack_nr + 2 + i), arbitrary length.
    Bits(Vec<bool>),
    /// Explicit raw extension bytes (any length, for hostile scripts).
    Raw(Vec<u8>),
}

#[derive(Clone, Debug, PartialEq, Serialize, Deserialize)]
pub enum PeerStep {
    Wait(u64),
    /// Send packet i of the peer's predetermined packet list (again if already sent).
    SendPkt(usize),
    /// Send packet i of the peer's list (again if already sent) advertising window `wnd`; with
    /// `persist` a peer without a receive-buffer model keeps advertising it afterwards.
    DataWnd { i: usize, wnd: u32, persist: bool },
    /// Send an ST_DATA with sequence number = first data number + rel and `len` PRF bytes that
    /// do not belong to the stream (hostile: beyond window / far future / after FIN).
    RogueData { rel: i32, len: u16 },
    /// Send ST_STATE: ack = cumulative + ack_delta.
    Ack { ack_delta: i32, wnd: Option<u32>, sack: SackSpec },
    /// FIN at its proper number (after all packets) or at packet index `at` (out of sequence).
    Fin { at: Option<usize> },
    /// The regular FIN again, with an acknowledgement number `back` behind what the peer has
    /// received (as if the endpoint's latest packets had not reached it).
    FinStale { back: u16 },
    Reset,
    /// Re-send the SYN (Connector role) / the SYN-ACK (Acceptor role).
    HandshakeDup,
    SetWnd(u32),
    SetAuto(AutoCfg),
    /// Drain n bytes from the receive-buffer model (opens the window).
    Drain(u32),
    /// Raw datagram (header fields given explicitly; ids relative to the connection).
    Raw { typ: u8, ver: u8, id_delta: i16, seq_rel: i32, ack_delta: i32, wnd: u32, ext: Vec<(u8, Vec<u8>)>, payload_len: u16 },
    /// Stop reacting to anything from now on (peer vanished).
    Vanish,
}

#[derive(Clone, Debug, PartialEq, Serialize, Deserialize, Default)]
pub struct PeerScript {
    pub role: PeerRole,
    pub isn: u16,
    pub conn_id: u16,
    pub wnd: u32,
    pub auto: AutoCfg,
    /// Payload lengths of the peer's own stream packets, in sequence order.
    #[serde(default)]
    pub pkts: Vec<u16>,
    pub steps: Vec<PeerStep>,
    /// When the SYN is sent (Connector role), ms.
    #[serde(default)]
    pub start_ms: u64,
    /// Answer the endpoint's SYN after this delay (Acceptor role), ms.
    #[serde(default)]
    pub synack_delay_ms: u64,
}

impl PeerScript {
    pub fn summary(&self) -> serde_json::Value {
        serde_json::json!({"role": self.role, "isn": self.isn, "wnd": self.wnd, "auto": self.auto, "packets": self.pkts.len(), "steps": self.steps.len(), "first_steps": self.steps.iter().take(12).collect::<Vec<_>>()})
    }
    pub fn weight(&self) -> u64 {
        self.steps.len() as u64 * 10 + self.pkts.iter().map(|l| *l as u64).sum::<u64>()
    }
    pub fn pkt_offset(&self, i: usize) -> u64 {
        self.pkts.iter().take(i).map(|l| *l as u64).sum()
    }
    /// Sequence number of the peer's i-th data packet.
    pub fn pkt_seq(&self, i: usize) -> u16 {
        let first = match self.role {
            PeerRole::Connector => self.isn.wrapping_add(1),
            PeerRole::Acceptor => self.isn,
        };
        first.wrapping_add(i as u16)
    }
    pub fn fin_seq(&self) -> u16 {
        self.pkt_seq(self.pkts.len())
    }
}

struct State {
    sc_peer: PeerScript,
    ep: RawEndpoint,
    remote: std::net::SocketAddr,
    key_tx: u64,
    /// connection ids: what the peer sends with / receives on
    id_send: u16,
    id_recv: u16,
    established: bool,
    /// endpoint's data: seq -> len, cumulative ack (highest in-order seq received)
    rcv: BTreeMap<u16, usize>,
    rcv_cum: u16,
    rcv_cum_valid: bool,
    endpoint_fin: Option<u16>,
    fin_answered: bool,
    wnd: u32,
    auto: AutoCfg,
    undrained: u64,
    last_drain_t: u64,
    since_ack: u32,
    vanished: bool,
    last_ts_from_endpoint: u32,
    syn_seen: Option<Pkt>,
}

impl State {
    fn now_window(&mut self) -> u32 {
        match self.auto.rx_model {
            None => self.wnd,
            Some(m) => {
                let now = hist::now() / hist::MS;
                if m.drain_per_ms > 0 && now > self.last_drain_t {
                    let d = (now - self.last_drain_t) * m.drain_per_ms as u64;
                    self.undrained = self.undrained.saturating_sub(d);
                }
                self.last_drain_t = now;
                (m.buf as u64).saturating_sub(self.undrained) as u32
            }
        }
    }

    fn base(&mut self, typ: u8) -> Pkt {
        let mut p = Pkt::new(typ, self.id_send, 0, self.rcv_cum, 0);
        p.wnd = self.now_window();
        p.ts = (hist::now() / 1000) as u32;
        p.ts_diff = p.ts.wrapping_sub(self.last_ts_from_endpoint);
        p
    }

    fn auto_sack_bits(&self) -> Option<Vec<bool>> {
        // bit i <-> rcv_cum + 2 + i
        let mut bits = vec![false; 64];
        let mut any = false;
        for seq in self.rcv.keys() {
            let d = seq_diff(*seq, self.rcv_cum);
            if d >= 2 && (d - 2) < 64 {
                bits[(d - 2) as usize] = true;
                any = true;
            }
        }
        any.then_some(bits)
    }

    fn next_seq_for_control(&self) -> u16 {
        self.sc_peer.fin_seq()
    }

    fn send_ack(&mut self, ack_delta: i32, wnd: Option<u32>, sack: &SackSpec) {
        let mut p = self.base(codec::ST_STATE);
        p.seq = self.next_seq_for_control();
        p.ack = self.rcv_cum.wrapping_add(ack_delta as u16);
        if let Some(w) = wnd {
            p.wnd = w;
        }
        match sack {
            SackSpec::Auto => {
                if self.auto.sack {
                    if let Some(bits) = self.auto_sack_bits() {
                        p.set_sack_bits(&bits);
                    }
                }
            }
            SackSpec::None => {}
            SackSpec::Bits(b) => p.set_sack_bits(b),
            SackSpec::Raw(d) => p.exts.push((codec::EXT_SACK, d.clone())),
        }
        self.ep.send(self.remote, p.serialize());
    }

    fn send_pkt(&mut self, i: usize) {
        let Some(len) = self.sc_peer.pkts.get(i).copied() else { return };
        let mut p = self.base(codec::ST_DATA);
        p.seq = self.sc_peer.pkt_seq(i);
        let mut payload = vec![0u8; len as usize];
        prf_fill(self.key_tx, self.sc_peer.pkt_offset(i), &mut payload);
        p.payload = payload;
        self.ep.send(self.remote, p.serialize());
    }

    fn on_datagram(&mut self, raw: &[u8]) {
        if self.vanished {
            return;
        }
        let Ok(p) = Pkt::parse(raw) else { return };
        self.last_ts_from_endpoint = p.ts;
        match p.typ {
            codec::ST_SYN if self.sc_peer.role == PeerRole::Acceptor && self.syn_seen.is_none() => {
                self.syn_seen = Some(p.clone());
                self.id_send = p.conn_id;
                self.id_recv = p.conn_id.wrapping_add(1);
                self.rcv_cum = p.seq;
                self.rcv_cum_valid = true;
            }
            codec::ST_STATE if self.sc_peer.role == PeerRole::Connector && !self.established => {
                // SYN-ACK: endpoint's first data packet will carry this sequence number.
                self.established = true;
                self.rcv_cum = p.seq.wrapping_sub(1);
                self.rcv_cum_valid = true;
            }
            codec::ST_DATA => {
                if !self.rcv_cum_valid {
                    return;
                }
                let is_new = seq_diff(p.seq, self.rcv_cum) > 0 && seq_diff(p.seq, self.rcv_cum) < 2000 && !self.rcv.contains_key(&p.seq);
                if is_new {
                    // receive-buffer model: drop what does not fit
                    if let Some(m) = self.auto.rx_model {
                        let _ = self.now_window();
                        if self.undrained + p.payload.len() as u64 > m.buf as u64 {
                            return;
                        }
                        self.undrained += p.payload.len() as u64;
                    }
                    self.rcv.insert(p.seq, p.payload.len());
                    // keep only what is held out of order
                    while self.rcv.remove(&self.rcv_cum.wrapping_add(1)).is_some() {
                        self.rcv_cum = self.rcv_cum.wrapping_add(1);
                    }
                }
                self.since_ack += 1;
            }
            codec::ST_FIN => {
                self.endpoint_fin = Some(p.seq);
                if seq_diff(p.seq, self.rcv_cum) == 1 {
                    self.rcv_cum = p.seq;
                }
            }
            _ => {}
        }
    }
}

/// Spawns the peer task. Returns the number of "script tasks" the runner has to wait for.
pub fn spawn(ctx: &Ctx, _socks: &[Sock], p: &PeerScript) -> usize {
    let sc = ctx.sc.clone();
    let peer_addr = sc.addr(1);
    let remote = sc.addr(0);
    let ep = ctx.net.bind_raw(peer_addr);
    let key_tx = match p.role {
        PeerRole::Connector => sc.stream_key(0, 0),
        PeerRole::Acceptor => sc.stream_key(0, 1),
    };
    let mut st = State {
        sc_peer: p.clone(),
        ep: ep.clone(),
        remote,
        key_tx,
        id_send: p.conn_id.wrapping_add(1),
        id_recv: p.conn_id,
        established: false,
        rcv: BTreeMap::new(),
        rcv_cum: 0,
        rcv_cum_valid: false,
        endpoint_fin: None,
        fin_answered: false,
        wnd: p.wnd,
        auto: p.auto.clone(),
        undrained: 0,
        last_drain_t: 0,
        since_ack: 0,
        vanished: false,
        last_ts_from_endpoint: 0,
        syn_seen: None,
    };
    let ctx2 = ctx.clone();
    tokio::spawn(async move {
        let ctx = ctx2;
        // pending delayed auto-acks: virtual ms at which to fire
        let mut delayed: Vec<u64> = vec![];
        let mut step_idx = 0usize;
        let mut next_step_at: u64 = st.sc_peer.start_ms;
        let mut syn_sent = false;
        let mut synack_due: Option<u64> = None;
        let mut script_done_signalled = false;
        loop {
            let now_ms = hist::now() / hist::MS;
            // 1. handshake actions
            if st.sc_peer.role == PeerRole::Connector && !syn_sent && now_ms >= st.sc_peer.start_ms {
                let mut syn = Pkt::new(codec::ST_SYN, st.sc_peer.conn_id, st.sc_peer.isn, 0, 0);
                syn.ts = (hist::now() / 1000) as u32;
                st.ep.send(remote, syn.serialize());
                syn_sent = true;
            }
            if st.sc_peer.role == PeerRole::Acceptor && !st.established {
                if let (Some(_), None) = (&st.syn_seen, synack_due) {
                    synack_due = Some(now_ms + st.sc_peer.synack_delay_ms);
                }
                if synack_due.is_some_and(|d| now_ms >= d) {
                    let mut sa = st.base(codec::ST_STATE);
                    sa.seq = st.sc_peer.isn;
                    st.ep.send(remote, sa.serialize());
                    st.established = true;
                }
            }
            // 2. delayed auto-acks that are due
            let mut fired = false;
            delayed.retain(|t| {
                if *t <= now_ms {
                    fired = true;
                    false
                } else {
                    true
                }
            });
            if fired && !st.vanished {
                st.send_ack(0, None, &SackSpec::Auto);
            }
            // 3. script steps (only once established)
            while st.established && step_idx < st.sc_peer.steps.len() && now_ms >= next_step_at {
                let step = st.sc_peer.steps[step_idx].clone();
                step_idx += 1;
                match step {
                    PeerStep::Wait(ms) => {
                        next_step_at = now_ms + ms;
                        if ms > 0 {
                            break;
                        }
                    }
                    PeerStep::SendPkt(i) => st.send_pkt(i),
                    PeerStep::DataWnd { i, wnd, persist } => {
                        if let Some(len) = st.sc_peer.pkts.get(i).copied() {
                            let mut p = st.base(codec::ST_DATA);
                            p.seq = st.sc_peer.pkt_seq(i);
                            p.wnd = wnd;
                            let mut payload = vec![0u8; len as usize];
                            prf_fill(st.key_tx, st.sc_peer.pkt_offset(i), &mut payload);
                            p.payload = payload;
                            st.ep.send(remote, p.serialize());
                            if persist && st.auto.rx_model.is_none() {
                                st.wnd = wnd;
                            }
                        }
                    }
                    PeerStep::RogueData { rel, len } => {
                        let mut p = st.base(codec::ST_DATA);
                        p.seq = st.sc_peer.pkt_seq(0).wrapping_add(rel as u16);
                        let mut payload = vec![0u8; len.max(1) as usize];
                        prf_fill(st.key_tx ^ 0xBAD, rel as u64, &mut payload);
                        p.payload = payload;
                        st.ep.send(remote, p.serialize());
                    }
                    PeerStep::Ack { ack_delta, wnd, sack } => st.send_ack(ack_delta, wnd, &sack),
                    PeerStep::Fin { at } => {
                        let mut p = st.base(codec::ST_FIN);
                        p.seq = match at {
                            Some(i) => st.sc_peer.pkt_seq(i),
                            None => st.sc_peer.fin_seq(),
                        };
                        st.ep.send(remote, p.serialize());
                    }
                    PeerStep::FinStale { back } => {
                        let mut p = st.base(codec::ST_FIN);
                        p.seq = st.sc_peer.fin_seq();
                        p.ack = p.ack.wrapping_sub(back);
                        st.ep.send(remote, p.serialize());
                    }
                    PeerStep::Reset => {
                        let mut p = st.base(codec::ST_RESET);
                        p.seq = st.next_seq_for_control();
                        st.ep.send(remote, p.serialize());
                    }
                    PeerStep::HandshakeDup => match st.sc_peer.role {
                        PeerRole::Connector => {
                            let mut syn = Pkt::new(codec::ST_SYN, st.sc_peer.conn_id, st.sc_peer.isn, 0, 0);
                            syn.ts = (hist::now() / 1000) as u32;
                            st.ep.send(remote, syn.serialize());
                        }
                        PeerRole::Acceptor => {
                            if let Some(syn) = &st.syn_seen {
                                let mut sa = Pkt::new(codec::ST_STATE, st.id_send, st.sc_peer.isn, syn.seq, st.wnd);
                                sa.ts = (hist::now() / 1000) as u32;
                                st.ep.send(remote, sa.serialize());
                            }
                        }
                    },
                    PeerStep::SetWnd(w) => st.wnd = w,
                    PeerStep::SetAuto(a) => st.auto = a,
                    PeerStep::Drain(n) => {
                        let _ = st.now_window();
                        st.undrained = st.undrained.saturating_sub(n as u64);
                    }
                    PeerStep::Raw { typ, ver, id_delta, seq_rel, ack_delta, wnd, ext, payload_len } => {
                        let mut p = st.base(typ & 0x0f);
                        p.ver = ver & 0x0f;
                        p.conn_id = st.id_send.wrapping_add(id_delta as u16);
                        p.seq = st.sc_peer.pkt_seq(0).wrapping_add(seq_rel as u16);
                        p.ack = st.rcv_cum.wrapping_add(ack_delta as u16);
                        p.wnd = wnd;
                        p.exts = ext;
                        let mut payload = vec![0u8; payload_len as usize];
                        prf_fill(st.key_tx ^ 0xF00D, seq_rel as u64, &mut payload);
                        p.payload = payload;
                        st.ep.send(remote, p.serialize());
                    }
                    PeerStep::Vanish => {
                        st.vanished = true;
                        ctx.hist.lock().unwrap().push(Ev::Fault("peer vanished".into()));
                        ctx.hist.lock().unwrap().count_fault("peer_vanish");
                    }
                }
            }
            if step_idx >= st.sc_peer.steps.len() && !script_done_signalled && st.established {
                script_done_signalled = true;
                ctx.done.fetch_add(1, std::sync::atomic::Ordering::SeqCst);
                ctx.done_notify.notify_one();
            }
            // 4. wait for the next thing: datagram or timer
            let mut next_wake: Option<u64> = delayed.iter().copied().min();
            if st.established && step_idx < st.sc_peer.steps.len() {
                next_wake = Some(next_wake.map_or(next_step_at, |w| w.min(next_step_at)));
            }
            if !syn_sent && st.sc_peer.role == PeerRole::Connector {
                next_wake = Some(st.sc_peer.start_ms);
            }
            if let Some(d) = synack_due {
                if !st.established {
                    next_wake = Some(next_wake.map_or(d, |w| w.min(d)));
                }
            }
            let sleep = async {
                match next_wake {
                    Some(ms) => tokio::time::sleep_until(hist::start() + Duration::from_millis(ms)).await,
                    None => std::future::pending::<()>().await,
                }
            };
            tokio::select! {
                biased;
                (raw, _src) = ep.recv() => {
                    let before_cum = st.rcv_cum;
                    let was_data = Pkt::parse(&raw).is_ok_and(|p| p.typ == codec::ST_DATA);
                    let was_fin = Pkt::parse(&raw).is_ok_and(|p| p.typ == codec::ST_FIN);
                    st.on_datagram(&raw);
                    let _ = before_cum;
                    if st.vanished || !st.established { continue; }
                    if was_data {
                        match st.auto.ack {
                            AckMode::Manual => {}
                            AckMode::Immediate => st.send_ack(0, None, &SackSpec::Auto),
                            AckMode::Delayed(ms) => delayed.push(hist::now() / hist::MS + ms),
                            AckMode::EveryN(n) => {
                                if st.since_ack >= n {
                                    st.since_ack = 0;
                                    st.send_ack(0, None, &SackSpec::Auto);
                                }
                            }
                        }
                    }
                    if was_fin && st.auto.answer_fin && !st.fin_answered && st.endpoint_fin == Some(st.rcv_cum) {
                        st.fin_answered = true;
                        let mut p = st.base(codec::ST_FIN);
                        p.seq = st.sc_peer.fin_seq();
                        st.ep.send(remote, p.serialize());
                    }
                }
                _ = sleep => {}
            }
        }
    });
    1
}
