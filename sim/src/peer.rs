//! Scripted peer (placeholder; filled in below).
use serde::{Deserialize, Serialize};

use crate::world::{Ctx, Sock};

#[derive(Clone, Debug, Default, PartialEq, Serialize, Deserialize)]
pub struct PeerScript {
    #[serde(default)]
    pub steps: Vec<u8>,
}

impl PeerScript {
    pub fn summary(&self) -> serde_json::Value {
        serde_json::json!({})
    }
    pub fn weight(&self) -> u64 {
        self.steps.len() as u64
    }
}

pub fn spawn(_ctx: &Ctx, _socks: &[Sock], _p: &PeerScript) -> usize {
    0
}
