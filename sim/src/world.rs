//! The runner: builds the simulated world from a Scenario, runs it to completion under the
//! paused tokio clock, returns the recorded History.
use std::{
    io::IoSliceMut,
    net::SocketAddr,
    pin::Pin,
    sync::{
        Arc, Mutex,
        atomic::{AtomicUsize, Ordering},
    },
    task::Poll,
    time::Duration,
};

use librqbit_utp::{
    CongestionConfig, SocketOpts, UtpSocket, UtpStream, UtpStreamReadHalf, UtpStreamWriteHalf,
};
use tokio::io::{AsyncRead, AsyncWrite, ReadBuf};
use tokio_util::sync::CancellationToken;

use crate::{
    codec::{self, Pkt},
    env::SimEnv,
    hist::{self, AppEv, AppKind, AppRes, Ev, Half, History, SharedHist, MS},
    net::{SimNet, SimTransport},
    scenario::{GlobalOp, OptsCfg, ROp, Scenario, Side, WOp},
    util::{prf_byte, prf_fill, prf_mismatch},
};

pub type Sock = Arc<UtpSocket<SimTransport, SimEnv>>;

pub struct RunOutput {
    pub hist: History,
    pub realised: Vec<crate::net::Decision>,
    pub t_script_end: u64,
    pub cap_hit: bool,
    pub t_end: u64,
    pub attempts: u64,
    pub in_flight_end: usize,
}

thread_local! {
    pub static PANIC_MSG: std::cell::RefCell<Vec<String>> = const { std::cell::RefCell::new(Vec::new()) };
}

pub fn install_panic_hook() {
    std::panic::set_hook(Box::new(|info| {
        let loc = info
            .location()
            .map(|l| format!("{}:{}", l.file(), l.line()))
            .unwrap_or_default();
        let msg = if let Some(s) = info.payload().downcast_ref::<&str>() {
            s.to_string()
        } else if let Some(s) = info.payload().downcast_ref::<String>() {
            s.clone()
        } else {
            "<non-string panic>".to_string()
        };
        // A panic raised inside a dependency (or std) on behalf of the library counts as the
        // library's: walking down from the panic site, whose code comes first - the library's
        // or the harness's?
        let mut via = String::new();
        if !loc.contains("/repo/src") {
            let bt = std::backtrace::Backtrace::force_capture().to_string();
            for line in bt.lines() {
                let l = line.trim();
                if l.contains("install_panic_hook") {
                    continue;
                }
                if l.contains("librqbit_utp::") {
                    via = format!(" [raised on behalf of the library (/repo/src): {}]", l.trim_start_matches(|c: char| c.is_ascii_digit() || c == ':' || c == ' '));
                    break;
                }
                if l.contains("utpsim::") {
                    break;
                }
            }
        }
        PANIC_MSG.with(|p| p.borrow_mut().push(format!("{} @ {}{}", msg, loc, via)));
        if std::env::var_os("VERIF_SHOW_PANICS").is_some() {
            eprintln!("PANIC: {} @ {}", msg, loc);
        }
    }));
}

pub fn socket_opts(o: &OptsCfg, token: CancellationToken) -> SocketOpts {
    use std::num::NonZeroUsize;
    SocketOpts {
        link_mtu: o.link_mtu.and_then(NonZeroUsize::new),
        vsock_rx_bufsize_bytes: o.rx_buf.and_then(NonZeroUsize::new),
        vsock_tx_bufsize_bytes_initial: o.tx_init.and_then(NonZeroUsize::new),
        vsock_tx_bufsize_bytes_max: o.tx_max.and_then(NonZeroUsize::new),
        disable_nagle: o.disable_nagle,
        congestion: CongestionConfig {
            kind: Default::default(),
            tracing: o.cc_tracing,
        },
        parent_span: None,
        cancellation_token: token,
        max_retransmissions: o.max_retx.and_then(NonZeroUsize::new),
        remote_inactivity_timeout: o.inactivity_ms.map(Duration::from_millis),
        max_live_vsocks: o.max_live.and_then(NonZeroUsize::new),
        dont_wait_for_lastack: o.dont_wait_lastack,
        mtu_probe_max_retransmissions: o.mtu_probe_retx,
    }
}

#[derive(Clone)]
pub struct Ctx {
    pub sc: Arc<Scenario>,
    pub hist: SharedHist,
    pub net: Arc<SimNet>,
    pub done: Arc<AtomicUsize>,
    pub done_notify: Arc<tokio::sync::Notify>,
}

impl Ctx {
    pub fn log(&self, node: usize, conn: usize, half: Half, kind: AppKind, res: AppRes) {
        self.hist.lock().unwrap().push(Ev::App(AppEv {
            node,
            conn,
            half,
            kind,
            res,
        }));
    }
    fn task_done(&self) {
        self.done.fetch_add(1, Ordering::SeqCst);
        self.done_notify.notify_one();
    }
}

/// Waker handed to the stream in place of the task's own: forwards to it until switched off.
#[derive(Default)]
struct RelayWaker {
    inner: std::sync::Mutex<Option<std::task::Waker>>,
    dead: std::sync::atomic::AtomicBool,
}

impl std::task::Wake for RelayWaker {
    fn wake(self: Arc<Self>) {
        self.wake_by_ref()
    }
    fn wake_by_ref(self: &Arc<Self>) {
        if !self.dead.load(Ordering::SeqCst) {
            if let Some(w) = self.inner.lock().unwrap().as_ref() {
                w.wake_by_ref();
            }
        }
    }
}

fn io_res(r: &std::io::Result<usize>) -> AppRes {
    match r {
        Ok(n) => AppRes::Ok(*n),
        Err(e) => AppRes::Err(e.to_string()),
    }
}

async fn yield_k(k: u32) {
    for _ in 0..k {
        tokio::task::yield_now().await;
    }
}

/// Writer task: executes the write-side ops of one stream half.
/// Read progress shared between the reader and writer task of one stream side.
#[derive(Default)]
pub struct ReadProgress {
    pub bytes: std::sync::atomic::AtomicU64,
    pub finished: std::sync::atomic::AtomicBool,
    pub notify: tokio::sync::Notify,
}

pub async fn run_writer(ctx: Ctx, node: usize, conn: usize, key: u64, mut w: UtpStreamWriteHalf, ops: Vec<WOp>, prog: Arc<ReadProgress>) {
    let mut off: u64 = 0;
    let mut buf: Vec<u8> = Vec::new();
    let mut failed = false;
    'ops: for op in ops {
        match op {
            WOp::Write { n, chunk } => {
                let mut remaining = n;
                while remaining > 0 {
                    let len = (chunk.max(1) as u64).min(remaining) as usize;
                    buf.resize(len, 0);
                    prf_fill(key, off, &mut buf);
                    let mut blocked_logged = false;
                    let r = std::future::poll_fn(|cx| {
                        let p = Pin::new(&mut w).poll_write(cx, &buf);
                        if p.is_pending() && !blocked_logged {
                            blocked_logged = true;
                            ctx.log(node, conn, Half::W, AppKind::WriteBlocked { off }, AppRes::Pending);
                        }
                        p
                    })
                    .await;
                    ctx.log(node, conn, Half::W, AppKind::Write { off }, io_res(&r));
                    match r {
                        Ok(0) => {
                            failed = true;
                            break 'ops;
                        }
                        Ok(k) => {
                            off += k as u64;
                            remaining -= k as u64;
                        }
                        Err(_) => {
                            failed = true;
                            break 'ops;
                        }
                    }
                }
            }
            WOp::WriteImpatient { n, chunk, ms } => {
                let mut remaining = n;
                while remaining > 0 {
                    let len = (chunk.max(1) as u64).min(remaining) as usize;
                    buf.resize(len, 0);
                    prf_fill(key, off, &mut buf);
                    let mut blocked_logged = false;
                    // each attempt polls through its own relay waker; an abandoned attempt's
                    // relay is switched off, like the waker of a task that is gone
                    let mut attempts = 0u32;
                    let r = loop {
                        attempts += 1;
                        // (after 100 abandoned attempts the writer simply waits)
                        let ms = if attempts > 100 { 1 << 40 } else { ms };
                        let relay = Arc::new(RelayWaker::default());
                        let waker = std::task::Waker::from(relay.clone());
                        let attempt = std::future::poll_fn(|cx| {
                            *relay.inner.lock().unwrap() = Some(cx.waker().clone());
                            let mut cx2 = std::task::Context::from_waker(&waker);
                            let p = Pin::new(&mut w).poll_write(&mut cx2, &buf);
                            if p.is_pending() && !blocked_logged {
                                blocked_logged = true;
                                ctx.log(node, conn, Half::W, AppKind::WriteBlocked { off }, AppRes::Pending);
                            }
                            p
                        });
                        match tokio::time::timeout(Duration::from_millis(ms.max(1)), attempt).await {
                            Ok(r) => break r,
                            Err(_) => relay.dead.store(true, Ordering::SeqCst),
                        }
                    };
                    ctx.log(node, conn, Half::W, AppKind::Write { off }, io_res(&r));
                    match r {
                        Ok(0) => {
                            failed = true;
                            break 'ops;
                        }
                        Ok(k) => {
                            off += k as u64;
                            remaining -= k as u64;
                        }
                        Err(_) => {
                            failed = true;
                            break 'ops;
                        }
                    }
                }
            }
            WOp::Flush => {
                ctx.log(node, conn, Half::W, AppKind::FlushStart, AppRes::Pending);
                let r = std::future::poll_fn(|cx| Pin::new(&mut w).poll_flush(cx)).await;
                ctx.log(node, conn, Half::W, AppKind::Flush, io_res(&r.map(|_| 0)));
            }
            WOp::Shutdown => {
                ctx.log(node, conn, Half::W, AppKind::ShutdownStart, AppRes::Pending);
                let r = std::future::poll_fn(|cx| Pin::new(&mut w).poll_shutdown(cx)).await;
                ctx.log(node, conn, Half::W, AppKind::Shutdown, io_res(&r.map(|_| 0)));
            }
            WOp::Sleep(ms) => tokio::time::sleep(Duration::from_millis(ms)).await,
            WOp::Yield(k) => yield_k(k).await,
            WOp::Drop => {
                ctx.log(node, conn, Half::W, AppKind::DropHalf, AppRes::Dropped);
                drop(w);
                ctx.task_done();
                return;
            }
            WOp::CutNet { dir, drop_in_flight } => {
                ctx.net.cut_now(dir, drop_in_flight);
            }
            WOp::WaitRead(n) => loop {
                let notified = prog.notify.notified();
                if prog.bytes.load(Ordering::SeqCst) >= n || prog.finished.load(Ordering::SeqCst) {
                    break;
                }
                notified.await;
            },
        }
    }
    let _ = failed;
    ctx.task_done();
    // Hold the half until the end of the run.
    std::future::pending::<()>().await;
    drop(w);
}

/// Reader task: executes the read-side ops of one stream half, checking content online.
pub async fn run_reader(ctx: Ctx, node: usize, conn: usize, key: u64, mut r: UtpStreamReadHalf, ops: Vec<ROp>, start: u64, prog: Arc<ReadProgress>) {
    prog.bytes.store(start, Ordering::SeqCst);
    let mut off: u64 = start;
    let mut buf: Vec<u8> = Vec::new();
    let mut buf2: Vec<u8> = Vec::new();
    'ops: for op in ops {
        match op {
            ROp::Read { n, buf: bsz, vectored } => {
                let mut remaining = n;
                let bsz = bsz.max(1);
                while remaining > 0 {
                    let want = (bsz as u64).min(remaining) as usize;
                    ctx.log(node, conn, Half::R, AppKind::ReadStart { off }, AppRes::Pending);
                    let res: std::io::Result<usize> = if vectored && want >= 2 {
                        let a = want / 2;
                        buf.resize(a, 0);
                        buf2.resize(want - a, 0);
                        let res = std::future::poll_fn(|cx| {
                            let mut iov = [IoSliceMut::new(&mut buf), IoSliceMut::new(&mut buf2)];
                            Pin::new(&mut r).poll_read_vectored(cx, &mut iov)
                        })
                        .await;
                        if let Ok(k) = &res {
                            // Join for content check.
                            let k = *k;
                            let first = k.min(a);
                            let mut joined = buf[..first].to_vec();
                            joined.extend_from_slice(&buf2[..k - first]);
                            buf = joined;
                        }
                        res
                    } else {
                        buf.resize(want, 0);
                        std::future::poll_fn(|cx| {
                            let mut rb = ReadBuf::new(&mut buf);
                            match Pin::new(&mut r).poll_read(cx, &mut rb) {
                                Poll::Ready(Ok(())) => Poll::Ready(Ok(rb.filled().len())),
                                Poll::Ready(Err(e)) => Poll::Ready(Err(e)),
                                Poll::Pending => Poll::Pending,
                            }
                        })
                        .await
                    };
                    match res {
                        Ok(0) => {
                            ctx.log(node, conn, Half::R, AppKind::Read { off }, AppRes::Eof);
                            break 'ops;
                        }
                        Ok(k) => {
                            if k > want {
                                ctx.log(node, conn, Half::R, AppKind::Mismatch { off }, AppRes::Err(format!("read returned {} > buffer {}", k, want)));
                            }
                            if let Some(i) = prf_mismatch(key, off, &buf[..k.min(buf.len())]) {
                                let at = off + i as u64;
                                ctx.log(
                                    node,
                                    conn,
                                    Half::R,
                                    AppKind::Mismatch { off: at },
                                    AppRes::Err(format!("got {:#04x} expected {:#04x}", buf[i], prf_byte(key, at))),
                                );
                            }
                            ctx.log(node, conn, Half::R, AppKind::Read { off }, AppRes::Ok(k));
                            off += k as u64;
                            remaining = remaining.saturating_sub(k as u64);
                            prog.bytes.store(off, Ordering::SeqCst);
                            prog.notify.notify_waiters();
                        }
                        Err(e) => {
                            ctx.log(node, conn, Half::R, AppKind::Read { off }, AppRes::Err(e.to_string()));
                            break 'ops;
                        }
                    }
                }
            }
            ROp::Sleep(ms) => tokio::time::sleep(Duration::from_millis(ms)).await,
            ROp::Yield(k) => yield_k(k).await,
            ROp::Drop => {
                ctx.log(node, conn, Half::R, AppKind::DropHalf, AppRes::Dropped);
                drop(r);
                prog.finished.store(true, Ordering::SeqCst);
                prog.notify.notify_waiters();
                ctx.task_done();
                return;
            }
        }
    }
    prog.finished.store(true, Ordering::SeqCst);
    prog.notify.notify_waiters();
    ctx.task_done();
    std::future::pending::<()>().await;
    drop(r);
}

fn spawn_sides(ctx: &Ctx, node: usize, conn: usize, wkey: u64, rkey: u64, stream: UtpStream, side: &Side) {
    let (r, w) = stream.split();
    let prog = Arc::new(ReadProgress::default());
    tokio::spawn(run_writer(ctx.clone(), node, conn, wkey, w, side.w.clone(), prog.clone()));
    tokio::spawn(run_reader(ctx.clone(), node, conn, rkey, r, side.r.clone(), 0, prog));
}

/// Identify which connect an accepted stream belongs to by matching the first 8 stream bytes.
async fn identify(ctx: &Ctx, r: &mut UtpStreamReadHalf) -> Result<(usize, Vec<u8>), String> {
    let mut got = vec![];
    let mut tmp = [0u8; 8];
    while got.len() < 8 {
        let need = 8 - got.len();
        let res = std::future::poll_fn(|cx| {
            let mut rb = ReadBuf::new(&mut tmp[..need]);
            match Pin::new(&mut *r).poll_read(cx, &mut rb) {
                Poll::Ready(Ok(())) => Poll::Ready(Ok(rb.filled().len())),
                Poll::Ready(Err(e)) => Poll::Ready(Err(e)),
                Poll::Pending => Poll::Pending,
            }
        })
        .await;
        match res {
            Ok(0) => return Err(format!("EOF after {} token bytes", got.len())),
            Ok(k) => got.extend_from_slice(&tmp[..k]),
            Err(e) => return Err(format!("error after {} token bytes: {}", got.len(), e)),
        }
    }
    for k in 0..ctx.sc.connects.len() {
        let key = ctx.sc.stream_key(k, 0);
        if prf_mismatch(key, 0, &got).is_none() {
            return Ok((k, got));
        }
    }
    Err(format!("token {:02x?} matches no connector", got))
}

fn forge_reset(h: &History, to: SocketAddr) -> Option<(SocketAddr, Vec<u8>)> {
    // Find the last datagram emitted towards `to` by a real socket: reuse its connection id
    // (the id `to` receives on) and numbers.
    let (_, e) = h.emits().filter(|(_, e)| e.dst == to && e.pkt.is_some()).last()?;
    let p = e.pkt.as_ref().unwrap();
    let mut rst = Pkt::new(codec::ST_RESET, p.conn_id, p.seq.wrapping_add(1), p.ack, 0);
    if p.typ == codec::ST_SYN {
        rst.conn_id = p.conn_id.wrapping_add(1);
    }
    rst.ts = p.ts;
    Some((e.src, rst.serialize()))
}

pub fn run(sc: &Scenario) -> RunOutput {
    let sc = Arc::new(sc.clone());
    let mut seed_bytes = [0u8; 32];
    for (i, chunk) in seed_bytes.chunks_mut(8).enumerate() {
        chunk.copy_from_slice(&crate::util::h3(sc.seed, i as u64, 991).to_le_bytes());
    }
    let rt = tokio::runtime::Builder::new_current_thread()
        .enable_time()
        .start_paused(true)
        .rng_seed(tokio::runtime::RngSeed::from_bytes(&seed_bytes))
        .build()
        .expect("runtime");

    PANIC_MSG.with(|p| p.borrow_mut().clear());
    let hist: SharedHist = Arc::new(Mutex::new(History::default()));

    let out = rt.block_on(async {
        hist::set_start(tokio::time::Instant::now());
        {
            let h2 = hist.clone();
            librqbit_utp::verif::set_observer(Some(Box::new(move |ev| {
                h2.lock().unwrap().push(Ev::Probe(ev));
            })));
        }
        let net = SimNet::new(sc.net.clone(), hist.clone());
        let mut socks: Vec<Sock> = vec![];
        let mut tokens: Vec<CancellationToken> = vec![];
        for (i, n) in sc.nodes.iter().enumerate() {
            let token = CancellationToken::new();
            let transport = net.bind(sc.addr(i));
            let sock = UtpSocket::new_with_opts(transport, SimEnv::new(n.env.clone()), socket_opts(&n.opts, token.clone()))
                .expect("socket opts");
            socks.push(sock);
            tokens.push(token);
        }
        let ctx = Ctx {
            sc: sc.clone(),
            hist: hist.clone(),
            net: net.clone(),
            done: Arc::new(AtomicUsize::new(0)),
            done_notify: Arc::new(tokio::sync::Notify::new()),
        };
        let mut expected_tasks = 0usize;
        let single = sc.connects.len() <= 1 && sc.accepts.len() <= 1;

        // Connectors.
        for (k, c) in sc.connects.iter().enumerate() {
            if c.node >= sc.nodes.len() {
                // a connect of a scripted attacker: only its stream key is used
                continue;
            }
            expected_tasks += 2;
            let ctx = ctx.clone();
            let sock = socks[c.node].clone();
            let c = c.clone();
            let to = sc.addr(c.to);
            tokio::spawn(async move {
                tokio::time::sleep(Duration::from_millis(c.at_ms)).await;
                ctx.log(c.node, k, Half::W, AppKind::ConnectStart, AppRes::Pending);
                let fut = sock.connect(to);
                let res = match c.cancel_after_ms {
                    Some(ms) => match tokio::time::timeout(Duration::from_millis(ms), fut).await {
                        Ok(r) => Some(r),
                        Err(_) => None,
                    },
                    None => Some(fut.await),
                };
                match res {
                    Some(Ok(stream)) => {
                        ctx.log(c.node, k, Half::W, AppKind::ConnectDone, AppRes::Ok(0));
                        spawn_sides(&ctx, c.node, k, ctx.sc.stream_key(k, 0), ctx.sc.stream_key(k, 1), stream, &c.side);
                    }
                    Some(Err(e)) => {
                        ctx.log(c.node, k, Half::W, AppKind::ConnectDone, AppRes::Err(format!("{e:#}")));
                        ctx.task_done();
                        ctx.task_done();
                    }
                    None => {
                        ctx.log(c.node, k, Half::W, AppKind::Cancel, AppRes::Dropped);
                        ctx.task_done();
                        ctx.task_done();
                    }
                }
            });
        }
        // Acceptors.
        for (j, a) in sc.accepts.iter().enumerate() {
            expected_tasks += 2;
            let ctx = ctx.clone();
            let sock = socks[a.node].clone();
            let a = a.clone();
            tokio::spawn(async move {
                tokio::time::sleep(Duration::from_millis(a.at_ms)).await;
                let aconn = 1000 + j;
                ctx.log(a.node, aconn, Half::R, AppKind::AcceptStart, AppRes::Pending);
                let fut = sock.accept();
                let res = match a.cancel_after_ms {
                    // (the application's select! looks at its deadline first: at a tie the call
                    // is dropped without being polled again, whatever it holds by then)
                    Some(ms) if ctx.sc.param("cancel_wins_ties") == Some(1) => {
                        // (the deadline is watched by another task of the application, which
                        // tells this one to give up: at a tie the accept call may already hold
                        // a connection when it is dropped)
                        let (ctx_tx, ctx_rx) = tokio::sync::oneshot::channel::<()>();
                        tokio::spawn(async move {
                            tokio::time::sleep(Duration::from_millis(ms)).await;
                            let _ = ctx_tx.send(());
                        });
                        tokio::select! {
                            biased;
                            _ = ctx_rx => None,
                            r = fut => Some(r),
                        }
                    }
                    Some(ms) => match tokio::time::timeout(Duration::from_millis(ms), fut).await {
                        Ok(r) => Some(r),
                        Err(_) => None,
                    },
                    None => Some(fut.await),
                };
                match res {
                    Some(Ok(stream)) => {
                        ctx.log(a.node, aconn, Half::R, AppKind::AcceptDone, AppRes::Ok(0));
                        if single {
                            spawn_sides(&ctx, a.node, 0, ctx.sc.stream_key(0, 1), ctx.sc.stream_key(0, 0), stream, &a.side);
                        } else {
                            let (mut r, w) = stream.split();
                            match identify(&ctx, &mut r).await {
                                Ok((k, _)) => {
                                    ctx.log(a.node, aconn, Half::R, AppKind::Note(format!("accept {} paired with connect {}", j, k)), AppRes::Ok(k));
                                    let prog = Arc::new(ReadProgress::default());
                                    tokio::spawn(run_writer(ctx.clone(), a.node, k, ctx.sc.stream_key(k, 1), w, a.side.w.clone(), prog.clone()));
                                    tokio::spawn(run_reader(ctx.clone(), a.node, k, ctx.sc.stream_key(k, 0), r, a.side.r.clone(), 8, prog));
                                }
                                Err(e) => {
                                    // The application gives up on a stream it cannot identify.
                                    ctx.log(a.node, aconn, Half::R, AppKind::Note(format!("accept {} unidentified", j)), AppRes::Err(e));
                                    drop((r, w));
                                    ctx.task_done();
                                    ctx.task_done();
                                }
                            }
                        }
                    }
                    Some(Err(e)) => {
                        ctx.log(a.node, aconn, Half::R, AppKind::AcceptDone, AppRes::Err(format!("{e:#}")));
                        ctx.task_done();
                        ctx.task_done();
                    }
                    None => {
                        ctx.log(a.node, aconn, Half::R, AppKind::Cancel, AppRes::Dropped);
                        ctx.task_done();
                        ctx.task_done();
                    }
                }
            });
        }
        // Global timed faults.
        for g in sc.global.iter().cloned() {
            let ctx = ctx.clone();
            let tokens = tokens.clone();
            let sc2 = sc.clone();
            tokio::spawn(async move {
                match g {
                    GlobalOp::Kill { node, at_ms } => {
                        tokio::time::sleep(Duration::from_millis(at_ms)).await;
                        ctx.net.kill(sc2.addr(node));
                        tokens[node].cancel();
                    }
                    GlobalOp::Cancel { node, at_ms } => {
                        tokio::time::sleep(Duration::from_millis(at_ms)).await;
                        {
                            let mut h = ctx.hist.lock().unwrap();
                            h.count_fault("cancel_token");
                            h.push(Ev::Fault(format!("cancel socket token node {}", node)));
                        }
                        tokens[node].cancel();
                    }
                    GlobalOp::Suspend { at_ms, dur_ms } => {
                        tokio::time::sleep(Duration::from_millis(at_ms)).await;
                        {
                            let mut h = ctx.hist.lock().unwrap();
                            h.count_fault("suspend_jump");
                            h.push(Ev::Fault(format!("suspend {} ms", dur_ms)));
                        }
                        tokio::time::advance(Duration::from_millis(dur_ms)).await;
                    }
                    GlobalOp::InjectReset { to_node, at_ms } => {
                        tokio::time::sleep(Duration::from_millis(at_ms)).await;
                        let to = sc2.addr(to_node);
                        let forged = forge_reset(&ctx.hist.lock().unwrap(), to);
                        if let Some((src, raw)) = forged {
                            {
                                let mut h = ctx.hist.lock().unwrap();
                                h.count_fault("inject_reset");
                                h.push(Ev::Fault(format!("inject RESET to node {}", to_node)));
                            }
                            ctx.net.inject(src, to, raw);
                        }
                    }
                }
            });
        }
        if let Some(a) = &sc.attack {
            crate::attack::spawn(&ctx, a);
        }
        // Scripted peer.
        if let Some(p) = &sc.peer {
            expected_tasks += crate::peer::spawn(&ctx, &socks, p);
        }

        // Wait for the script to finish or the cap.
        let cap = tokio::time::sleep(Duration::from_millis(sc.script_cap_ms));
        tokio::pin!(cap);
        let mut cap_hit = false;
        loop {
            if ctx.done.load(Ordering::SeqCst) >= expected_tasks {
                break;
            }
            tokio::select! {
                biased;
                _ = ctx.done_notify.notified() => {}
                _ = &mut cap => { cap_hit = true; break; }
            }
        }
        let t_script_end = hist::now();
        tokio::time::sleep(Duration::from_millis(sc.settle_ms)).await;
        let t_end = hist::now();
        librqbit_utp::verif::set_observer(None);
        let realised = net.realised();
        let attempts = net.attempts();
        let in_flight_end = net.in_flight();
        drop(socks);
        (realised, t_script_end, cap_hit, t_end, attempts, in_flight_end)
    });
    librqbit_utp::verif::set_observer(None);
    drop(rt);
    let mut h = std::mem::take(&mut *hist.lock().unwrap());
    h.panics = PANIC_MSG.with(|p| std::mem::take(&mut *p.borrow_mut()));
    RunOutput {
        hist: h,
        realised: out.0,
        t_script_end: out.1,
        cap_hit: out.2,
        t_end: out.3,
        attempts: out.4,
        in_flight_end: out.5,
    }
}

pub fn ms(t: u64) -> u64 {
    t / MS
}
