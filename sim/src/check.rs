//! The check driver: seeded search over scenarios for one property, violation handling
//! (minimise, replay file, known findings), evidence file.
use std::{
    collections::{BTreeMap, HashSet},
    sync::{
        Mutex,
        atomic::{AtomicBool, AtomicU64, Ordering},
    },
    time::Instant,
};

use serde_json::json;

use crate::{
    analysis::{self, Violation},
    families::{self, Family},
    known,
    minimise,
    oracles::OracleResult,
    scenario::Scenario,
    util::h3,
    world::{self, RunOutput},
};

pub const DEFAULT_SEED: u64 = 20260925;

#[derive(Clone, Copy, PartialEq, Eq, Debug)]
pub enum Tier {
    Quick,
    Thorough,
}

impl Tier {
    pub fn name(&self) -> &'static str {
        match self {
            Tier::Quick => "quick",
            Tier::Thorough => "thorough",
        }
    }
}

pub struct Found {
    pub family: &'static str,
    pub run_seed: u64,
    pub index: u64,
    pub v: Violation,
}

#[derive(Default)]
pub struct Stats {
    pub evaluations: u64,
    pub per_family: BTreeMap<&'static str, u64>,
    pub relevant: u64,
    pub faulted: u64,
    pub inconclusive: u64,
    pub cap_hits: u64,
    pub sim_ns: u128,
    pub datagrams: u64,
    pub events: u64,
    pub fault_counts: BTreeMap<&'static str, u64>,
    pub probes: BTreeMap<&'static str, u64>,
    pub probe_runs: BTreeMap<&'static str, u64>,
    pub shapes_nontrivial: HashSet<u64>,
    pub shapes_all: HashSet<u64>,
    pub abstract_states: HashSet<u64>,
    pub found: Vec<Found>,
    pub samples: Vec<serde_json::Value>,
    pub panics: u64,
    pub known_hits: BTreeMap<String, (u64, &'static str, u64)>,
    /// Order-independent digest of (run seed, event hash) over all runs: equal between two
    /// processes (any worker count) exactly when every run produced the same event history.
    pub agg_hash: u64,
}

impl Stats {
    fn merge(&mut self, o: Stats) {
        self.evaluations += o.evaluations;
        self.agg_hash = self.agg_hash.wrapping_add(o.agg_hash);
        for (k, v) in o.per_family {
            *self.per_family.entry(k).or_insert(0) += v;
        }
        self.relevant += o.relevant;
        self.faulted += o.faulted;
        self.inconclusive += o.inconclusive;
        self.cap_hits += o.cap_hits;
        self.sim_ns += o.sim_ns;
        self.datagrams += o.datagrams;
        self.events += o.events;
        for (k, v) in o.fault_counts {
            *self.fault_counts.entry(k).or_insert(0) += v;
        }
        for (k, v) in o.probes {
            *self.probes.entry(k).or_insert(0) += v;
        }
        for (k, v) in o.probe_runs {
            *self.probe_runs.entry(k).or_insert(0) += v;
        }
        self.shapes_nontrivial.extend(o.shapes_nontrivial);
        self.shapes_all.extend(o.shapes_all);
        self.abstract_states.extend(o.abstract_states);
        self.found.extend(o.found);
        self.samples.extend(o.samples);
        self.panics += o.panics;
        for (k, (n, fam, seed)) in o.known_hits {
            let e = self.known_hits.entry(k).or_insert((0, fam, seed));
            e.0 += n;
        }
    }
}

pub fn run_seed(base: u64, family_idx: usize, i: u64) -> u64 {
    h3(base, family_idx as u64 + 1, i)
}

pub fn fam_seed(base: u64, fams: &[Family], fi: usize, i: u64) -> u64 {
    match fams[fi].seed_mode {
        families::SeedMode::Hashed => run_seed(base, fi, i),
        families::SeedMode::Index => ((h3(base, fi as u64 + 1, 0) >> 24) << 20) | (i & 0xFFFFF),
    }
}

/// Evaluate one scenario for one property: run + oracle (+ universal panic check).
pub fn evaluate(property: &str, sc: &Scenario) -> (RunOutput, OracleResult) {
    let out = world::run(sc);
    let mut res = (families::oracle(property))(sc, &out);
    // A panic anywhere in the library is reported under C10 only (its property); harness
    // panics make the run inconclusive.
    for p in &out.hist.panics {
        if !p.contains("/repo/src") {
            res.inconclusive = true;
            eprintln!("HARNESS PANIC (run inconclusive): {}", p);
        }
    }
    (out, res)
}

fn summarize_scenario(sc: &Scenario, out: &RunOutput) -> serde_json::Value {
    let emits = out.hist.emits().count();
    json!({
        "family": sc.family,
        "seed": sc.seed,
        "net": {
            "latency_us": sc.net.latency_us, "jitter_us": sc.net.jitter_us, "drop_p": sc.net.drop_p,
            "dup_p": sc.net.dup_p, "stale_p": sc.net.stale_p, "blackhole_ip": sc.net.blackhole_ip,
            "emsgsize_ip": sc.net.emsgsize_ip, "pending_p": sc.net.pending_p, "burst": sc.net.burst,
            "explicit_decisions": sc.net.explicit.as_ref().map(|e| e.len()),
        },
        "nodes": sc.nodes.iter().map(|n| json!({"ipv6": n.ipv6, "opts": n.opts})).collect::<Vec<_>>(),
        "connects": sc.connects.len(),
        "accepts": sc.accepts.len(),
        "first_connect_script": sc.connects.first().map(|c| json!(c.side)),
        "first_accept_script": sc.accepts.first().map(|c| json!(c.side)),
        "peer_script": sc.peer.as_ref().map(|p| p.summary()),
        "datagrams": emits,
        "faults_fired": out.hist.fault_counts,
        "sim_end_ms": out.t_end / 1_000_000,
    })
}

pub struct CheckOpts {
    pub property: String,
    pub tier: Tier,
    pub base_seed: u64,
    pub threads: usize,
    pub scale: f64,
    pub wall_cap_s: f64,
}

pub fn explore(o: &CheckOpts, fams: &[Family], known: &known::KnownFile) -> (Stats, f64) {
    let t0 = Instant::now();
    // Work items: (family idx, i)
    let mut plan: Vec<(usize, u64)> = vec![];
    for (fi, f) in fams.iter().enumerate() {
        let n = match o.tier {
            Tier::Quick => f.quick,
            Tier::Thorough => f.thorough,
        };
        let n = ((n as f64) * o.scale).ceil() as u64;
        for i in 0..n {
            plan.push((fi, i));
        }
    }
    // Interleave families so that a wall-clock cap cuts all of them proportionally.
    plan.sort_by_key(|(fi, i)| {
        let n = match o.tier {
            Tier::Quick => fams[*fi].quick,
            Tier::Thorough => fams[*fi].thorough,
        }
        .max(1);
        ((*i as u128 * 1_000_000 / n as u128) as u64, *fi)
    });
    let next = AtomicU64::new(0);
    let stop = AtomicBool::new(false);
    let total = Mutex::new(Stats::default());
    std::thread::scope(|s| {
        for _ in 0..o.threads {
            s.spawn(|| {
                let mut st = Stats::default();
                loop {
                    if stop.load(Ordering::Relaxed) {
                        break;
                    }
                    let idx = next.fetch_add(1, Ordering::Relaxed) as usize;
                    if idx >= plan.len() {
                        break;
                    }
                    if t0.elapsed().as_secs_f64() > o.wall_cap_s {
                        stop.store(true, Ordering::Relaxed);
                        break;
                    }
                    let (fi, i) = plan[idx];
                    let fam = &fams[fi];
                    let seed = fam_seed(o.base_seed, fams, fi, i);
                    let sc = (fam.generate)(seed);
                    let (out, res) = evaluate(&o.property, &sc);
                    st.evaluations += 1;
                    *st.per_family.entry(fam.name).or_insert(0) += 1;
                    st.sim_ns += out.t_end as u128;
                    st.events += out.hist.evs.len() as u64;
                    st.datagrams += out.hist.emits().count() as u64;
                    let any_fault = !out.hist.fault_counts.is_empty();
                    if any_fault {
                        st.faulted += 1;
                    }
                    for (k, v) in &out.hist.fault_counts {
                        *st.fault_counts.entry(k).or_insert(0) += v;
                    }
                    for (k, v) in &res.probes {
                        *st.probes.entry(k).or_insert(0) += v;
                        *st.probe_runs.entry(k).or_insert(0) += 1;
                    }
                    if out.cap_hit {
                        st.cap_hits += 1;
                    }
                    if out.hist.fault_counts.contains_key("datagram_cap_hit") {
                        eprintln!("NOTE: datagram cap hit in family {} seed {}", fam.name, seed);
                    }
                    if res.inconclusive {
                        st.inconclusive += 1;
                    }
                    st.panics += out.hist.panics.len() as u64;
                    st.agg_hash = st.agg_hash.wrapping_add(crate::util::h3(seed, out.hist.hash.0, 0xA66));
                    let shape = analysis::trace_shape(&out.hist);
                    st.shapes_all.insert(shape);
                    if res.relevant {
                        st.relevant += 1;
                        if any_fault || fam.fault_free {
                            st.shapes_nontrivial.insert(shape);
                        }
                    }
                    analysis::abstract_states(&out.hist, &mut st.abstract_states);
                    if st.samples.len() < 1 && res.relevant && i < 64 {
                        st.samples.push(summarize_scenario(&sc, &out));
                    }
                    for v in res.violations {
                        if let Some(k) = known::matches(known, &o.property, v.tag, &sc, &out, &v) {
                            st.known_hits.entry(k.id.clone()).or_insert((0, fam.name, seed)).0 += 1;
                        } else {
                            st.found.push(Found { family: fam.name, run_seed: seed, index: i, v });
                        }
                    }
                }
                total.lock().unwrap().merge(st);
            });
        }
    });
    let wall = t0.elapsed().as_secs_f64();
    (total.into_inner().unwrap(), wall)
}

pub fn write_replay(path: &std::path::Path, property: &str, tag: &str, msg: &str, sc: &Scenario, hash: u64, orig_seed: u64, minimised_from: Option<serde_json::Value>) {
    let v = json!({
        "property": property,
        "tag": tag,
        "message": msg,
        "run_seed": orig_seed,
        "family": sc.family,
        "expected_event_hash": format!("{:016x}", hash),
        "minimisation": minimised_from,
        "scenario": sc,
    });
    std::fs::create_dir_all(path.parent().unwrap()).ok();
    std::fs::write(path, serde_json::to_string_pretty(&v).unwrap()).expect("write replay");
}

/// Run a check end to end. Returns the process exit code.
pub fn check(o: &CheckOpts, verif_dir: &std::path::Path) -> i32 {
    let fams = families::families(&o.property);
    if fams.is_empty() {
        eprintln!("unknown property {}", o.property);
        return 2;
    }
    // Determinism self-test (small): a determinism regression must never look like a violation.
    if let Err(e) = selftest_determinism(&o.property, &fams, o.base_seed, 6) {
        eprintln!("HARNESS ERROR: determinism self-test failed: {}", e);
        return 2;
    }
    let known = known::load(verif_dir);
    let (mut st, wall) = explore(o, &fams, &known);

    for (id, (n, fam, seed)) in &st.known_hits {
        let k = known.findings.iter().find(|f| &f.id == id).unwrap();
        println!("KNOWN-FINDING: property={} id={} occurrences={} (e.g. family={} seed={}) {}", o.property, id, n, fam, seed, k.summary);
    }
    // Group new violations by tag; minimise and report the first occurrence of each.
    st.found.sort_by_key(|f| (f.v.tag, f.family, f.index));
    let mut groups: BTreeMap<&'static str, Vec<&Found>> = BTreeMap::new();
    for f in &st.found {
        groups.entry(f.v.tag).or_default().push(f);
    }
    let mut exit = 0;
    let mut new_violations = 0u64;
    let mut replay_paths = vec![];
    for (tag, fs) in &groups {
        let f = fs[0];
        let fam = fams.iter().find(|x| x.name == f.family).unwrap();
        let sc = (fam.generate)(f.run_seed);
        let pred = |cand: &Scenario| -> bool {
            let (out, res) = evaluate(&o.property, cand);
            res.violations.iter().any(|v| v.tag == *tag && known::matches(&known, &o.property, tag, cand, &out, v).is_none())
        };
        if !pred(&sc) {
            eprintln!("HARNESS ERROR: violation {} family {} seed {} did not reproduce on re-run", tag, f.family, f.run_seed);
            return 2;
        }
        let (min_sc, info) = minimise::minimise(&sc, if o.tier == Tier::Quick { 30.0 } else { 60.0 }, &pred);
        let (final_out, final_res) = evaluate(&o.property, &min_sc);
        let final_msg = final_res.violations.iter().find(|v| v.tag == *tag).map(|v| v.msg.clone()).unwrap_or_else(|| f.v.msg.clone());
        let path = verif_dir.join("replays").join(format!("{}-{}-{:016x}.json", o.property, tag, f.run_seed));
        write_replay(&path, &o.property, tag, &final_msg, &min_sc, final_out.hist.hash.0, f.run_seed, Some(info));
        let trace_path = path.with_extension("trace.txt");
        std::fs::write(&trace_path, crate::hist::render(&final_out.hist, 6000, true)).ok();
        println!("VIOLATION property={} replay={}", o.property, path.display());
        println!("  tag={} family={} seed={} occurrences={} : {}", tag, f.family, f.run_seed, fs.len(), final_msg);
        replay_paths.push(path.display().to_string());
        new_violations += 1;
        exit = 1;
    }
    // Probes stuck at zero: warn.
    for name in families::expected_probes(&o.property) {
        if st.probes.get(name).copied().unwrap_or(0) == 0 {
            println!("WARNING: reach probe '{}' never fired: workload or fault mix must change", name);
        }
    }
    let runs_per_hour = st.evaluations as f64 / wall.max(1e-9) * 3600.0;
    let ev = json!({
        "property_id": o.property,
        "tier": o.tier.name(),
        "seed": o.base_seed,
        "level": "exploration",
        "coverage": {
            "evaluations": st.evaluations,
            "distinct_nontrivial": st.shapes_nontrivial.len(),
            "rule": families::rule(&o.property),
            "samples": st.samples,
            "runs_per_family": st.per_family,
            "runs_relevant": st.relevant,
            "runs_with_fault_fired": st.faulted,
            "runs_inconclusive": st.inconclusive,
            "runs_hit_script_cap": st.cap_hits,
            "distinct_trace_shapes_all": st.shapes_all.len(),
            "abstract_states_reached": st.abstract_states.len(),
            "abstract_state_measure": "distinct tuples (state-machine state, in recovery, rto-mode depth<=3, peer window zero, own window zero, reassembly non-empty, data in flight, unsegmented data, probing possible, transport pending, half flags, finished) over all end-of-poll connection snapshots",
            "simulated_time_s": (st.sim_ns / 1_000_000) as f64 / 1000.0,
            "datagrams": st.datagrams,
            "events": st.events,
            "runs_per_hour": runs_per_hour.round(),
            "fault_kinds_fired": st.fault_counts,
            "reach_probes_total": st.probes,
            "reach_probes_runs": st.probe_runs,
            "components_real": ["UtpSocket dispatcher task", "per-connection VirtualSocket task", "UtpStreamReadHalf/WriteHalf", "tokio mpsc/oneshot/select/time (paused clock)", "parking_lot", "ringbuf", "CUBIC", "RTO estimator", "recovery", "MTU probing"],
            "components_stubbed": families::stubs(&o.property),
            "aggregate_event_hash": format!("{:016x}", st.agg_hash),
            "known_finding_hits": st.known_hits.iter().map(|(k, v)| (k.clone(), v.0)).collect::<BTreeMap<_, _>>(),
            "new_violation_replays": replay_paths,
            "library_panics": st.panics,
        },
        "assumptions": families::assumptions(&o.property),
        "wall_s": wall,
        "violations": new_violations,
    });
    let evp = verif_dir.join("evidence").join(format!("{}.json", o.property));
    std::fs::create_dir_all(evp.parent().unwrap()).ok();
    std::fs::write(&evp, serde_json::to_string_pretty(&ev).unwrap()).expect("write evidence");
    println!(
        "{} {}: runs={} relevant={} nontrivial_shapes={} states={} sim_time={:.0}s wall={:.1}s runs/h={:.0} violations={} known_hits={} agg={:016x}",
        o.property,
        o.tier.name(),
        st.evaluations,
        st.relevant,
        st.shapes_nontrivial.len(),
        st.abstract_states.len(),
        (st.sim_ns / 1_000_000_000) as f64,
        wall,
        runs_per_hour,
        new_violations,
        st.known_hits.values().map(|v| v.0).sum::<u64>(),
        st.agg_hash
    );
    exit
}

/// N seeds x 2 executions (second execution on another thread): event hashes must match, and
/// run(seed) must equal run(explicit decisions of seed).
pub fn selftest_determinism(property: &str, fams: &[Family], base: u64, n: u64) -> Result<u64, String> {
    let mut checked = 0;
    for (fi, fam) in fams.iter().enumerate() {
        for i in 0..n {
            let seed = fam_seed(base ^ 0xD37E, fams, fi, i);
            let sc = (fam.generate)(seed);
            let a = world::run(&sc);
            let sc2 = sc.clone();
            let b = std::thread::spawn(move || {
                let o = world::run(&sc2);
                (o.hist.hash.0, o.hist.evs.len())
            })
            .join()
            .map_err(|_| "thread panicked".to_string())?;
            if a.hist.hash.0 != b.0 {
                return Err(format!(
                    "family {} seed {}: hashes differ {:x} vs {:x} (events {} vs {})",
                    fam.name,
                    seed,
                    a.hist.hash.0,
                    b.0,
                    a.hist.evs.len(),
                    b.1
                ));
            }
            if sc.net.explicit.is_none() {
                let mut sc3 = sc.clone();
                sc3.net.explicit = Some(a.realised.clone());
                let c = world::run(&sc3);
                if c.hist.hash.0 != a.hist.hash.0 {
                    return Err(format!("family {} seed {}: run(seed) != run(explicit(seed))", fam.name, seed));
                }
            }
            checked += 1;
        }
    }
    let _ = property;
    Ok(checked)
}
