//! SimNet: the only transport the simulated system sees. In-memory datagram network with
//! seeded, replayable fault decisions.
use std::{
    collections::{BTreeMap, HashMap},
    future::Future,
    io::IoSlice,
    net::SocketAddr,
    pin::Pin,
    sync::{Arc, Mutex},
    task::{Context, Poll, Waker},
    time::Duration,
};

use librqbit_dualstack_sockets::PollSendToVectored;
use librqbit_utp::Transport;
use serde::{Deserialize, Serialize};
use tokio::time::Sleep;

use crate::{
    codec::Pkt,
    hist::{self, Deliver, DropReason, Emit, Ev, Fate, SharedHist, T},
    util::{h3, unit},
};

pub const EMSGSIZE: i32 = 90; // libc::EMSGSIZE on Linux

/// One per-attempt fault decision. `Default` = plain delivery after the base latency.
#[derive(Clone, Copy, Debug, Default, PartialEq, Eq, Serialize, Deserialize)]
pub struct Decision {
    pub att: u64,
    /// Send returns Pending; the sender's waker fires after this many µs.
    #[serde(default, skip_serializing_if = "Option::is_none")]
    pub pending_us: Option<u64>,
    /// Send returns a non-EMSGSIZE OS error.
    #[serde(default, skip_serializing_if = "std::ops::Not::not")]
    pub err: bool,
    #[serde(default, skip_serializing_if = "std::ops::Not::not")]
    pub drop: bool,
    /// Extra delay on top of the base latency, µs.
    #[serde(default, skip_serializing_if = "is_zero")]
    pub extra_us: u64,
    /// Deliver a second copy this many µs after the first.
    #[serde(default, skip_serializing_if = "Option::is_none")]
    pub dup_us: Option<u64>,
    /// Corrupt the delivered copy: (kind, parameter). See `corrupt`.
    #[serde(default, skip_serializing_if = "Option::is_none")]
    pub corrupt: Option<(u8, u64)>,
}

fn is_zero(v: &u64) -> bool {
    *v == 0
}

impl Decision {
    pub fn is_default(&self) -> bool {
        self.pending_us.is_none() && !self.err && !self.drop && self.extra_us == 0 && self.dup_us.is_none() && self.corrupt.is_none()
    }
}

#[derive(Clone, Copy, Debug, PartialEq, Eq, Serialize, Deserialize)]
pub enum CutDir {
    Both,
    /// Only datagrams sent by this node index are dropped.
    From(usize),
}

#[derive(Clone, Copy, Debug, PartialEq, Serialize, Deserialize)]
pub struct Cut {
    pub from_ms: u64,
    /// None = forever.
    pub to_ms: Option<u64>,
    pub dir: CutDir,
}

#[derive(Clone, Debug, Default, PartialEq, Serialize, Deserialize)]
pub struct NetCfg {
    pub seed: u64,
    /// Base one-way latency, µs.
    pub latency_us: u64,
    /// Uniform extra delay in [0, jitter_us] (reordering).
    #[serde(default)]
    pub jitter_us: u64,
    #[serde(default)]
    pub drop_p: f64,
    /// Extra drop probability per packet type (DATA, FIN, STATE, RESET, SYN).
    #[serde(default)]
    pub type_drop_p: [f64; 5],
    #[serde(default)]
    pub dup_p: f64,
    /// Probability of a long ("stale") delay and its maximum in ms.
    #[serde(default)]
    pub stale_p: f64,
    #[serde(default)]
    pub stale_ms: u64,
    /// Gilbert-Elliott burst loss: (p_enter_bad, p_stay_bad).
    #[serde(default)]
    pub burst: Option<(f64, f64)>,
    /// Silently drop datagrams whose IP size exceeds this (PMTU black hole).
    #[serde(default)]
    pub blackhole_ip: Option<usize>,
    /// Send returns EMSGSIZE for datagrams whose IP size exceeds this.
    #[serde(default)]
    pub emsgsize_ip: Option<usize>,
    #[serde(default)]
    pub pending_p: f64,
    #[serde(default)]
    pub pending_us: u64,
    #[serde(default)]
    pub send_err_p: f64,
    #[serde(default)]
    pub cuts: Vec<Cut>,
    /// Fair-lossy: no datagram identity is randomly dropped more than this many times.
    #[serde(default)]
    pub drop_budget: Option<u8>,
    /// Fair-lossy: at most this many random drops in the whole run.
    #[serde(default)]
    pub drop_total: Option<u32>,
    /// Never randomly drop/dup/stale SYN packets (the library never retries a SYN).
    #[serde(default)]
    pub protect_syn: bool,
    /// Random faults (drop/dup/stale/pending/err) stop after this virtual time.
    #[serde(default)]
    pub fault_until_ms: Option<u64>,
    /// Random faults start only at this virtual time.
    #[serde(default)]
    pub fault_from_ms: Option<u64>,
    /// Random faults apply only to datagrams whose IP size does not exceed every size
    /// delivered so far in that direction (i.e. never to MTU probes). Used by C14.
    #[serde(default)]
    pub spare_probes: bool,
    /// Corruption of delivered datagrams (C10/C11 families only): probability and enabled kinds.
    #[serde(default)]
    pub corrupt_p: f64,
    #[serde(default)]
    pub corrupt_kinds: Vec<u8>,
    /// Explicit decisions (replay / minimised / systematic placement). When present the
    /// probabilistic fields above are ignored.
    #[serde(default)]
    pub explicit: Option<Vec<Decision>>,
}

struct Endpoint {
    idx: usize,
    real: bool,
    alive: bool,
    inbox: BTreeMap<(T, u64, u8), (SocketAddr, Arc<Vec<u8>>, Option<Arc<Pkt>>, bool)>,
    recv_waker: Option<Waker>,
    recv_sleep: Pin<Box<Sleep>>,
    send_unblock_at: T,
    send_sleep: Pin<Box<Sleep>>,
    max_delivered_ip: usize,
}

pub struct NetInner {
    pub cfg: NetCfg,
    explicit: Option<HashMap<u64, Decision>>,
    endpoints: HashMap<SocketAddr, Endpoint>,
    next_att: u64,
    next_ord: u64,
    /// Realised non-default decisions of this run (for conversion to explicit form).
    pub realised: Vec<Decision>,
    budget: HashMap<u64, u8>,
    burst_bad: HashMap<(usize, usize), bool>,
    dynamic_cut: Option<CutDir>,
    pub in_flight: usize,
    drops_so_far: u32,
}

pub struct SimNet {
    inner: Mutex<NetInner>,
    hist: SharedHist,
}

pub fn ip_size(dst: &SocketAddr, udp_payload: usize) -> usize {
    udp_payload + 8 + if dst.is_ipv4() { 20 } else { 40 }
}

enum SendOutcome {
    Pending,
    Err(std::io::Error),
    Sent(usize),
}

impl SimNet {
    pub fn new(cfg: NetCfg, hist: SharedHist) -> Arc<SimNet> {
        let explicit = cfg
            .explicit
            .as_ref()
            .map(|v| v.iter().map(|d| (d.att, *d)).collect::<HashMap<_, _>>());
        Arc::new(SimNet {
            inner: Mutex::new(NetInner {
                cfg,
                explicit,
                endpoints: HashMap::new(),
                next_att: 0,
                next_ord: 0,
                realised: vec![],
                budget: HashMap::new(),
                burst_bad: HashMap::new(),
                dynamic_cut: None,
                in_flight: 0,
                drops_so_far: 0,
            }),
            hist,
        })
    }

    fn add_endpoint(&self, addr: SocketAddr, real: bool) {
        let mut g = self.inner.lock().unwrap();
        let idx = g.endpoints.len();
        let prev = g.endpoints.insert(
            addr,
            Endpoint {
                idx,
                real,
                alive: true,
                inbox: BTreeMap::new(),
                recv_waker: None,
                recv_sleep: Box::pin(tokio::time::sleep(Duration::ZERO)),
                send_unblock_at: 0,
                send_sleep: Box::pin(tokio::time::sleep(Duration::ZERO)),
                max_delivered_ip: 0,
            },
        );
        assert!(prev.is_none(), "address bound twice");
    }

    /// Bind a transport for a real librqbit-utp socket.
    pub fn bind(self: &Arc<Self>, addr: SocketAddr) -> SimTransport {
        self.add_endpoint(addr, true);
        SimTransport {
            addr,
            net: self.clone(),
        }
    }

    /// Bind a raw endpoint for a scripted peer / attacker.
    pub fn bind_raw(self: &Arc<Self>, addr: SocketAddr) -> RawEndpoint {
        self.add_endpoint(addr, false);
        RawEndpoint {
            addr,
            net: self.clone(),
        }
    }

    /// The endpoint stops receiving (and everything queued for it is discarded).
    pub fn kill(&self, addr: SocketAddr) {
        let mut g = self.inner.lock().unwrap();
        if let Some(ep) = g.endpoints.get_mut(&addr) {
            ep.alive = false;
            let n = ep.inbox.len();
            ep.inbox.clear();
            g.in_flight -= n;
        }
        drop(g);
        let mut h = self.hist.lock().unwrap();
        h.count_fault("kill");
        h.push(Ev::Fault(format!("kill {}", addr)));
    }

    /// Cut the network from now on (forever). Optionally discard what is in flight.
    pub fn cut_now(&self, dir: CutDir, drop_in_flight: bool) {
        let mut g = self.inner.lock().unwrap();
        g.dynamic_cut = Some(dir);
        if drop_in_flight {
            let mut dropped = 0;
            let by_idx: HashMap<SocketAddr, usize> = g.endpoints.iter().map(|(a, e)| (*a, e.idx)).collect();
            for ep in g.endpoints.values_mut() {
                let before = ep.inbox.len();
                ep.inbox.retain(|_, (src, _, _, _)| match dir {
                    CutDir::Both => false,
                    CutDir::From(i) => by_idx.get(src).copied() != Some(i),
                });
                dropped += before - ep.inbox.len();
            }
            g.in_flight -= dropped;
        }
        drop(g);
        let mut h = self.hist.lock().unwrap();
        h.count_fault("cut");
        h.push(Ev::Fault(format!("cut {:?} drop_in_flight={}", dir, drop_in_flight)));
    }

    /// Inject a forged datagram with an arbitrary (bound) source address.
    pub fn inject(&self, src: SocketAddr, dst: SocketAddr, raw: Vec<u8>) {
        let _ = self.send(None, src, dst, raw, true);
    }

    pub fn realised(&self) -> Vec<Decision> {
        self.inner.lock().unwrap().realised.clone()
    }

    pub fn in_flight(&self) -> usize {
        self.inner.lock().unwrap().in_flight
    }

    pub fn attempts(&self) -> u64 {
        self.inner.lock().unwrap().next_att
    }

    fn send(&self, cx: Option<&mut Context<'_>>, src: SocketAddr, dst: SocketAddr, raw: Vec<u8>, injected: bool) -> SendOutcome {
        let now = hist::now();
        let mut g = self.inner.lock().unwrap();
        let g = &mut *g;
        let len = raw.len();

        // Back-pressure window still active?
        {
            let ep = g.endpoints.get_mut(&src).expect("send from unbound address");
            if !injected && now < ep.send_unblock_at {
                if let Some(cx) = cx {
                    let _ = ep.send_sleep.as_mut().poll(cx);
                }
                return SendOutcome::Pending;
            }
        }

        let att = g.next_att;
        g.next_att += 1;
        let pkt = Pkt::parse(&raw).ok().map(Arc::new);
        let ips = ip_size(&dst, len);
        let src_idx = g.endpoints[&src].idx;
        let src_real = g.endpoints[&src].real && !injected;
        let dst_ep = g.endpoints.get(&dst).map(|e| (e.idx, e.alive, e.max_delivered_ip));

        // Decide.
        let d = match &g.explicit {
            Some(m) => m.get(&att).copied().unwrap_or(Decision { att, ..Default::default() }),
            None => {
                let cfg = &g.cfg;
                let faults_on = cfg.fault_until_ms.is_none_or(|u| now < u * hist::MS) && cfg.fault_from_ms.is_none_or(|u| now >= u * hist::MS);
                let is_syn = pkt.as_ref().is_some_and(|p| p.typ == crate::codec::ST_SYN);
                let spared = (cfg.protect_syn && is_syn)
                    || (cfg.spare_probes && dst_ep.is_some_and(|(_, _, maxd)| ips > maxd && maxd > 0));
                let f = |k: u64| unit(h3(cfg.seed, att, k));
                let r = |k: u64| h3(cfg.seed, att, 100 + k);
                let mut d = Decision { att, ..Default::default() };
                if cfg.jitter_us > 0 && cfg.fault_from_ms.is_none_or(|u| now >= u * hist::MS) {
                    d.extra_us = r(4) % (cfg.jitter_us + 1);
                }
                if faults_on && src_real {
                    if cfg.pending_p > 0.0 && f(1) < cfg.pending_p {
                        d.pending_us = Some(1 + r(1) % cfg.pending_us.max(1));
                    }
                    if cfg.send_err_p > 0.0 && f(2) < cfg.send_err_p {
                        d.err = true;
                    }
                }
                if faults_on && !spared {
                    let tdp = pkt
                        .as_ref()
                        .map(|p| cfg.type_drop_p[(p.typ as usize).min(4)])
                        .unwrap_or(0.0);
                    if f(3) < cfg.drop_p + tdp {
                        d.drop = true;
                    }
                    if let (Some((p_enter, p_stay)), Some((di, _, _))) = (cfg.burst, dst_ep) {
                        let bad = g.burst_bad.entry((src_idx, di)).or_insert(false);
                        let x = f(7);
                        *bad = if *bad { x < p_stay } else { x < p_enter };
                        if *bad {
                            d.drop = true;
                        }
                    }
                    if cfg.stale_p > 0.0 && f(5) < cfg.stale_p {
                        d.extra_us += r(5) % (cfg.stale_ms * 1000 + 1);
                    }
                    if cfg.dup_p > 0.0 && f(6) < cfg.dup_p {
                        d.dup_us = Some(r(6) % (2 * cfg.latency_us + cfg.jitter_us + 2000));
                    }
                    if cfg.corrupt_p > 0.0 && !cfg.corrupt_kinds.is_empty() && f(8) < cfg.corrupt_p {
                        let kind = cfg.corrupt_kinds[(r(8) % cfg.corrupt_kinds.len() as u64) as usize];
                        d.corrupt = Some((kind, r(9)));
                    }
                    if d.drop {
                        if let Some(total) = cfg.drop_total {
                            if g.drops_so_far >= total {
                                d.drop = false;
                            }
                        }
                    }
                    if d.drop {
                        if let Some(b) = cfg.drop_budget {
                            // identity: DATA/FIN = (sender, type, seq, length): every retransmission
                            // of a segment is the same identity; control packets = everything but
                            // the timestamps (so the single window-reopening ACK is its own identity).
                            let mut idh = crate::util::Fnv::default();
                            idh.u64(src_idx as u64);
                            let is_seg = pkt.as_ref().is_some_and(|p| p.typ == crate::codec::ST_DATA || p.typ == crate::codec::ST_FIN);
                            if is_seg {
                                idh.bytes(&raw[0..4]);
                                idh.bytes(&raw[16..18]);
                                idh.u64(raw.len() as u64);
                            } else if raw.len() >= 20 {
                                idh.bytes(&raw[0..4]);
                                idh.bytes(&raw[12..]);
                            } else {
                                idh.bytes(&raw);
                            }
                            let c = g.budget.entry(idh.0).or_insert(0);
                            if *c >= b {
                                d.drop = false;
                            } else {
                                *c += 1;
                            }
                        }
                    }
                }
                d
            }
        };
        if d.drop {
            g.drops_so_far += 1;
        }
        if !d.is_default() {
            g.realised.push(d);
        }

        let mut hist_g = self.hist.lock().unwrap();

        if let Some(us) = d.pending_us {
            let ep = g.endpoints.get_mut(&src).unwrap();
            ep.send_unblock_at = now + us * 1000;
            ep.send_sleep
                .as_mut()
                .reset(hist::start() + Duration::from_nanos(ep.send_unblock_at));
            if let Some(cx) = cx {
                let _ = ep.send_sleep.as_mut().poll(cx);
                hist_g.count_fault("backpressure");
                hist_g.push(Ev::SendFail { att, src, dst, len, kind: "pending", pkt: pkt.clone() });
                return SendOutcome::Pending;
            }
            // No context (async send_to path handles Pending by polling again): fallthrough impossible here.
            hist_g.count_fault("backpressure");
            hist_g.push(Ev::SendFail { att, src, dst, len, kind: "pending", pkt: pkt.clone() });
            return SendOutcome::Pending;
        }
        if g.cfg.emsgsize_ip.is_some_and(|m| ips > m) && src_real {
            hist_g.count_fault("emsgsize");
            hist_g.push(Ev::SendFail { att, src, dst, len, kind: "EMSGSIZE", pkt: pkt.clone() });
            return SendOutcome::Err(std::io::Error::from_raw_os_error(EMSGSIZE));
        }
        if d.err {
            hist_g.count_fault("send_error");
            hist_g.push(Ev::SendFail { att, src, dst, len, kind: "ENETUNREACH", pkt: pkt.clone() });
            return SendOutcome::Err(std::io::Error::from_raw_os_error(101));
        }

        let ord = g.next_ord;
        g.next_ord += 1;
        let raw = Arc::new(raw);

        let cut = |c: &CutDir| match c {
            CutDir::Both => true,
            CutDir::From(i) => *i == src_idx,
        };
        let now_ms = now / hist::MS;
        let is_cut = g.dynamic_cut.as_ref().is_some_and(cut)
            || g.cfg
                .cuts
                .iter()
                .any(|c| now_ms >= c.from_ms && c.to_ms.is_none_or(|t| now_ms < t) && cut(&c.dir));

        let fate = match dst_ep {
            None => Fate::Dropped(DropReason::NoRoute),
            Some((_, false, _)) => Fate::Dropped(DropReason::DeadEndpoint),
            Some(_) if is_cut => {
                hist_g.count_fault("cut_drop");
                Fate::Dropped(DropReason::Cut)
            }
            Some(_) if g.cfg.blackhole_ip.is_some_and(|m| ips > m) => {
                hist_g.count_fault("blackhole_drop");
                Fate::Dropped(DropReason::BlackHole)
            }
            Some(_) if d.drop => {
                hist_g.count_fault("drop");
                Fate::Dropped(DropReason::Random)
            }
            Some(_) => {
                let at = now + (g.cfg.latency_us + d.extra_us) * 1000;
                if d.extra_us > g.cfg.jitter_us {
                    hist_g.count_fault("stale_delay");
                } else if d.extra_us > 0 {
                    hist_g.count_fault("jitter");
                }
                let dup_at = d.dup_us.map(|u| at + u * 1000);
                if dup_at.is_some() {
                    hist_g.count_fault("duplicate");
                }
                Fate::Deliver { at, dup_at }
            }
        };

        hist_g.push(Ev::Emit(Emit {
            ord,
            att,
            src,
            dst,
            raw: raw.clone(),
            pkt: pkt.clone(),
            ip_size: ips,
            fate,
            real: src_real,
        }));
        drop(hist_g);

        if let Fate::Deliver { at, dup_at } = fate {
            let (raw, pkt) = match d.corrupt {
                Some((kind, param)) => {
                    let c = corrupt(&raw, kind, param);
                    let mut hg = self.hist.lock().unwrap();
                    hg.count_fault(corrupt_name(kind));
                    drop(hg);
                    let p = Pkt::parse(&c).ok().map(Arc::new);
                    (Arc::new(c), p)
                }
                None => (raw, pkt),
            };
            let corrupted = d.corrupt.is_some();
            let ep = g.endpoints.get_mut(&dst).unwrap();
            ep.inbox.insert((at, ord, 0), (src, raw.clone(), pkt.clone(), corrupted));
            g.in_flight += 1;
            if let Some(d2) = dup_at {
                ep.inbox.insert((d2, ord, 1), (src, raw, pkt, corrupted));
                g.in_flight += 1;
            }
            if let Some(w) = ep.recv_waker.take() {
                w.wake();
            }
        }
        SendOutcome::Sent(len)
    }

    fn poll_recv(&self, cx: &mut Context<'_>, addr: SocketAddr, buf: &mut [u8]) -> Poll<(usize, SocketAddr)> {
        let mut g = self.inner.lock().unwrap();
        let g = &mut *g;
        loop {
            let now = hist::now();
            let ep = g.endpoints.get_mut(&addr).expect("recv on unbound address");
            if !ep.alive {
                ep.recv_waker = Some(cx.waker().clone());
                return Poll::Pending;
            }
            let first = ep.inbox.first_key_value().map(|(k, _)| *k);
            match first {
                Some((at, ord, copy)) if at <= now => {
                    let (src, raw, pkt, corrupted) = ep.inbox.remove(&(at, ord, copy)).unwrap();
                    g.in_flight -= 1;
                    let n = raw.len().min(buf.len());
                    buf[..n].copy_from_slice(&raw[..n]);
                    let ips = ip_size(&addr, raw.len());
                    ep.max_delivered_ip = ep.max_delivered_ip.max(ips);
                    let to_real = ep.real;
                    self.hist.lock().unwrap().push(Ev::Deliver(Deliver {
                        ord,
                        src,
                        dst: addr,
                        raw,
                        pkt,
                        dup: copy == 1,
                        to_real,
                        corrupted,
                    }));
                    return Poll::Ready((n, src));
                }
                Some((at, _, _)) => {
                    ep.recv_sleep
                        .as_mut()
                        .reset(hist::start() + Duration::from_nanos(at));
                    if ep.recv_sleep.as_mut().poll(cx).is_ready() {
                        // Timer rounding: deadline reached; loop to deliver.
                        if hist::now() < at {
                            // Should not happen; avoid a busy loop.
                            ep.recv_waker = Some(cx.waker().clone());
                            cx.waker().wake_by_ref();
                            return Poll::Pending;
                        }
                        continue;
                    }
                    ep.recv_waker = Some(cx.waker().clone());
                    return Poll::Pending;
                }
                None => {
                    ep.recv_waker = Some(cx.waker().clone());
                    return Poll::Pending;
                }
            }
        }
    }
}

/// Transport handed to a real `UtpSocket`.
pub struct SimTransport {
    addr: SocketAddr,
    net: Arc<SimNet>,
}

impl PollSendToVectored for SimTransport {
    fn poll_send_to_vectored(
        &self,
        cx: &mut Context<'_>,
        bufs: &[IoSlice<'_>],
        target: SocketAddr,
    ) -> Poll<std::io::Result<usize>> {
        let mut raw = Vec::with_capacity(bufs.iter().map(|b| b.len()).sum());
        for b in bufs {
            raw.extend_from_slice(b);
        }
        match self.net.send(Some(cx), self.addr, target, raw, false) {
            SendOutcome::Pending => Poll::Pending,
            SendOutcome::Err(e) => Poll::Ready(Err(e)),
            SendOutcome::Sent(n) => Poll::Ready(Ok(n)),
        }
    }
}

impl Transport for SimTransport {
    fn recv_from<'a>(
        &'a self,
        buf: &'a mut [u8],
    ) -> impl Future<Output = std::io::Result<(usize, SocketAddr)>> + Send + Sync + 'a {
        RecvFut { t: self, buf }
    }

    fn send_to<'a>(
        &'a self,
        buf: &'a [u8],
        target: SocketAddr,
    ) -> impl Future<Output = std::io::Result<usize>> + Send + Sync + 'a {
        SendFut { t: self, buf, target }
    }

    fn poll_send_to(&self, cx: &mut Context<'_>, buf: &[u8], target: SocketAddr) -> Poll<std::io::Result<usize>> {
        match self.net.send(Some(cx), self.addr, target, buf.to_vec(), false) {
            SendOutcome::Pending => Poll::Pending,
            SendOutcome::Err(e) => Poll::Ready(Err(e)),
            SendOutcome::Sent(n) => Poll::Ready(Ok(n)),
        }
    }

    fn bind_addr(&self) -> SocketAddr {
        self.addr
    }
}

struct RecvFut<'a> {
    t: &'a SimTransport,
    buf: &'a mut [u8],
}

impl Future for RecvFut<'_> {
    type Output = std::io::Result<(usize, SocketAddr)>;
    fn poll(self: Pin<&mut Self>, cx: &mut Context<'_>) -> Poll<Self::Output> {
        let this = self.get_mut();
        this.t.net.poll_recv(cx, this.t.addr, this.buf).map(Ok)
    }
}

struct SendFut<'a> {
    t: &'a SimTransport,
    buf: &'a [u8],
    target: SocketAddr,
}

impl Future for SendFut<'_> {
    type Output = std::io::Result<usize>;
    fn poll(self: Pin<&mut Self>, cx: &mut Context<'_>) -> Poll<Self::Output> {
        self.t.poll_send_to(cx, self.buf, self.target)
    }
}

/// Raw endpoint for scripted peers and attackers (never back-pressured, never errors).
#[derive(Clone)]
pub struct RawEndpoint {
    pub addr: SocketAddr,
    net: Arc<SimNet>,
}

impl RawEndpoint {
    pub fn send(&self, dst: SocketAddr, raw: Vec<u8>) {
        let _ = self.net.send(None, self.addr, dst, raw, true);
    }

    /// Send with a spoofed source address (must itself be bound on the net).
    pub fn send_from(&self, src: SocketAddr, dst: SocketAddr, raw: Vec<u8>) {
        let _ = self.net.send(None, src, dst, raw, true);
    }

    pub async fn recv(&self) -> (Vec<u8>, SocketAddr) {
        let mut buf = vec![0u8; 65536];
        let (n, src) = std::future::poll_fn(|cx| self.net.poll_recv(cx, self.addr, &mut buf)).await;
        buf.truncate(n);
        (buf, src)
    }
}

pub fn corrupt_name(kind: u8) -> &'static str {
    match kind {
        0 => "corrupt_flip_type_version",
        1 => "corrupt_flip_ext_id",
        2 => "corrupt_flip_ext_len",
        3 => "corrupt_truncate",
        4 => "corrupt_insert_unknown_extension",
        5 => "corrupt_garbage",
        6 => "corrupt_flip_header_field",
        7 => "corrupt_flip_payload",
        8 => "corrupt_toggle_payload",
        _ => "corrupt_other",
    }
}

/// Corruption of one datagram; a pure function of (bytes, kind, param).
pub fn corrupt(raw: &[u8], kind: u8, param: u64) -> Vec<u8> {
    let mut v = raw.to_vec();
    let bit = 1u8 << (param % 8);
    let p2 = param >> 8;
    match kind {
        0 => {
            if !v.is_empty() {
                v[0] ^= bit;
            }
        }
        1 => {
            if v.len() > 1 {
                v[1] ^= bit;
            }
        }
        2 => {
            if v.len() > 21 && v[1] != 0 {
                v[21] ^= bit;
            } else if v.len() > 1 {
                v[1] ^= bit;
            }
        }
        3 => {
            let n = (p2 % (v.len() as u64 + 1)) as usize;
            v.truncate(n);
        }
        4 => {
            // Insert an unknown extension at the end of the chain (semantics-preserving).
            if let Ok(p) = Pkt::parse_structure(raw) {
                let mut q = p.clone();
                let id = [2u8, 4, 5, 200, 255][(p2 % 5) as usize];
                let len = ((p2 >> 4) % 9) as usize;
                q.exts.push((id, (0..len).map(|i| (param >> (i % 8)) as u8).collect()));
                v = q.serialize();
            }
        }
        5 => {
            let n = (p2 % 64) as usize;
            v = (0..n).map(|i| crate::util::h3(param, i as u64, 5) as u8).collect();
        }
        6 => {
            if v.len() >= 20 {
                let i = 2 + (p2 % 18) as usize;
                v[i] ^= bit;
            }
        }
        7 => {
            if v.len() > 20 {
                let i = 20 + (p2 % (v.len() as u64 - 20)) as usize;
                v[i] ^= bit;
            }
        }
        8 => {
            if let Ok(p) = Pkt::parse_structure(raw) {
                let hl = p.header_len();
                if v.len() > hl {
                    v.truncate(hl);
                } else {
                    v.extend((0..1 + (p2 % 8)).map(|i| i as u8));
                }
            }
        }
        _ => {}
    }
    v
}
