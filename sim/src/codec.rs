//! Independent BEP-29 packet codec: the reference parser for C11 and the scripted peer's
//! serializer. Deliberately shares no code with the library under test.

pub const ST_DATA: u8 = 0;
pub const ST_FIN: u8 = 1;
pub const ST_STATE: u8 = 2;
pub const ST_RESET: u8 = 3;
pub const ST_SYN: u8 = 4;

pub const EXT_SACK: u8 = 1;

pub fn type_name(t: u8) -> &'static str {
    match t {
        ST_DATA => "DATA",
        ST_FIN => "FIN",
        ST_STATE => "STATE",
        ST_RESET => "RESET",
        ST_SYN => "SYN",
        _ => "?",
    }
}

#[derive(Clone, Debug, PartialEq, Eq)]
pub struct Pkt {
    pub typ: u8,
    pub ver: u8,
    pub conn_id: u16,
    pub ts: u32,
    pub ts_diff: u32,
    pub wnd: u32,
    pub seq: u16,
    pub ack: u16,
    /// Extension chain as (id, bytes).
    pub exts: Vec<(u8, Vec<u8>)>,
    pub payload: Vec<u8>,
}

#[derive(Clone, Copy, Debug, PartialEq, Eq)]
pub enum ParseErr {
    TooShort,
    BadVersion,
    BadType,
    ExtOverrun,
    DataWithoutPayload,
    PayloadOnControl,
}

impl Pkt {
    pub fn new(typ: u8, conn_id: u16, seq: u16, ack: u16, wnd: u32) -> Pkt {
        Pkt {
            typ,
            ver: 1,
            conn_id,
            ts: 0,
            ts_diff: 0,
            wnd,
            seq,
            ack,
            exts: vec![],
            payload: vec![],
        }
    }

    /// Structural parse (header + extension chain); does not apply the payload rule.
    pub fn parse_structure(b: &[u8]) -> Result<Pkt, ParseErr> {
        if b.len() < 20 {
            return Err(ParseErr::TooShort);
        }
        let typ = b[0] >> 4;
        let ver = b[0] & 0x0f;
        if ver != 1 {
            return Err(ParseErr::BadVersion);
        }
        if typ > 4 {
            return Err(ParseErr::BadType);
        }
        let mut next = b[1];
        let mut pos = 20usize;
        let mut exts = vec![];
        while next != 0 {
            if pos + 2 > b.len() {
                return Err(ParseErr::ExtOverrun);
            }
            let id = next;
            next = b[pos];
            let len = b[pos + 1] as usize;
            if pos + 2 + len > b.len() {
                return Err(ParseErr::ExtOverrun);
            }
            exts.push((id, b[pos + 2..pos + 2 + len].to_vec()));
            pos += 2 + len;
        }
        Ok(Pkt {
            typ,
            ver,
            conn_id: u16::from_be_bytes([b[2], b[3]]),
            ts: u32::from_be_bytes([b[4], b[5], b[6], b[7]]),
            ts_diff: u32::from_be_bytes([b[8], b[9], b[10], b[11]]),
            wnd: u32::from_be_bytes([b[12], b[13], b[14], b[15]]),
            seq: u16::from_be_bytes([b[16], b[17]]),
            ack: u16::from_be_bytes([b[18], b[19]]),
            exts,
            payload: b[pos..].to_vec(),
        })
    }

    /// Full reference verdict: version 1, known type, extension chain inside the datagram,
    /// payload present exactly for ST_DATA.
    pub fn parse(b: &[u8]) -> Result<Pkt, ParseErr> {
        let p = Self::parse_structure(b)?;
        if p.typ == ST_DATA && p.payload.is_empty() {
            return Err(ParseErr::DataWithoutPayload);
        }
        if p.typ != ST_DATA && !p.payload.is_empty() {
            return Err(ParseErr::PayloadOnControl);
        }
        Ok(p)
    }

    pub fn header_len(&self) -> usize {
        20 + self.exts.iter().map(|(_, d)| 2 + d.len()).sum::<usize>()
    }

    pub fn serialize(&self) -> Vec<u8> {
        let mut out = Vec::with_capacity(self.header_len() + self.payload.len());
        out.push((self.typ << 4) | (self.ver & 0x0f));
        out.push(self.exts.first().map(|e| e.0).unwrap_or(0));
        out.extend_from_slice(&self.conn_id.to_be_bytes());
        out.extend_from_slice(&self.ts.to_be_bytes());
        out.extend_from_slice(&self.ts_diff.to_be_bytes());
        out.extend_from_slice(&self.wnd.to_be_bytes());
        out.extend_from_slice(&self.seq.to_be_bytes());
        out.extend_from_slice(&self.ack.to_be_bytes());
        for (i, (_, d)) in self.exts.iter().enumerate() {
            out.push(self.exts.get(i + 1).map(|e| e.0).unwrap_or(0));
            out.push(d.len() as u8);
            out.extend_from_slice(d);
        }
        out.extend_from_slice(&self.payload);
        out
    }

    /// Selective-ACK bits, if the extension is present: bit i refers to ack_nr + 2 + i.
    pub fn sack_bits(&self) -> Option<Vec<bool>> {
        let (_, d) = self.exts.iter().find(|(id, _)| *id == EXT_SACK)?;
        let mut v = Vec::with_capacity(d.len() * 8);
        for byte in d {
            for bit in 0..8 {
                v.push(byte & (1 << bit) != 0);
            }
        }
        Some(v)
    }

    pub fn set_sack_bits(&mut self, bits: &[bool]) {
        let nbytes = bits.len().div_ceil(8).max(4).div_ceil(4) * 4;
        let mut d = vec![0u8; nbytes];
        for (i, b) in bits.iter().enumerate() {
            if *b {
                d[i / 8] |= 1 << (i % 8);
            }
        }
        self.exts.retain(|(id, _)| *id != EXT_SACK);
        self.exts.insert(0, (EXT_SACK, d));
    }

    pub fn short(&self) -> String {
        let mut s = format!(
            "{} id={} seq={} ack={} wnd={}",
            type_name(self.typ),
            self.conn_id,
            self.seq,
            self.ack,
            self.wnd
        );
        if !self.payload.is_empty() {
            s.push_str(&format!(" len={}", self.payload.len()));
        }
        if let Some(bits) = self.sack_bits() {
            let set: Vec<usize> = bits
                .iter()
                .enumerate()
                .filter(|(_, b)| **b)
                .map(|(i, _)| i)
                .collect();
            s.push_str(&format!(" sack={:?}", set));
        }
        s
    }
}

#[cfg(test)]
mod tests {
    use super::*;
    #[test]
    fn roundtrip() {
        let mut p = Pkt::new(ST_DATA, 7, 100, 200, 5000);
        p.payload = vec![1, 2, 3];
        p.set_sack_bits(&[true, false, true]);
        let b = p.serialize();
        let q = Pkt::parse(&b).unwrap();
        assert_eq!(p, q);
    }
}
