//! Scenario generators: (family, seed) -> Scenario. Swarm style: every run varies sizes,
//! workload mix, configuration knobs and the enabled fault kinds.
use crate::{
    env::EnvCfg,
    net::{Cut, CutDir, NetCfg},
    scenario::*,
    util::Rng,
};

/// Knobs that restrict the generic duplex generator for a family.
#[derive(Clone, Debug)]
pub struct Profile {
    pub max_bytes: u64,
    pub tiny_mss: bool,
    pub faults: bool,
    pub blackhole: bool,
    pub emsgsize: bool,
    pub backpressure: bool,
    pub stale: bool,
    pub cuts: bool,
    pub asym_mtu: bool,
    pub small_rx: bool,
    pub small_tx: bool,
    pub both_dirs: bool,
    pub slow_reader: bool,
    pub end_mix: bool,
    pub suspend: bool,
}

impl Profile {
    pub fn full(max_bytes: u64) -> Profile {
        Profile {
            max_bytes,
            tiny_mss: true,
            faults: true,
            blackhole: true,
            emsgsize: true,
            backpressure: true,
            stale: true,
            cuts: true,
            asym_mtu: true,
            small_rx: true,
            small_tx: true,
            both_dirs: true,
            slow_reader: true,
            end_mix: true,
            suspend: true,
        }
    }
}

pub fn pick_latency_us(r: &mut Rng) -> u64 {
    *r.pick(&[0, 1000, 2000, 5000, 10_000, 20_000, 50_000, 100_000, 300_000])
}

pub fn gen_env(r: &mut Rng) -> EnvCfg {
    let seed = r.next();
    // Each socket draws: next_connection_id at creation, then one value per connect/accept.
    let forced = match r.below(4) {
        0 => {
            // ISNs near the 16-bit wrap
            (0..4).map(|_| 65535u16.wrapping_sub(r.below(40) as u16)).collect()
        }
        1 => (0..4).map(|_| r.below(3) as u16).collect(),
        _ => vec![],
    };
    EnvCfg { seed, forced, now_jitter_us: 0 }
}

/// Payload size (uTP payload bytes) that fits a link MTU for the address family.
pub fn max_payload(link_mtu: usize, ipv6: bool) -> usize {
    let ip = if ipv6 { 40 } else { 20 };
    let min = ip + 8 + 20 + 1;
    link_mtu.max(min) - ip - 8 - 20
}

pub fn min_payload(link_mtu: usize, ipv6: bool) -> usize {
    let floor = if ipv6 { 1280 } else { 576 };
    max_payload(link_mtu.min(floor), ipv6)
}

pub fn gen_link_mtu(r: &mut Rng, tiny: bool) -> Option<usize> {
    match r.below(20) {
        0..=7 => None,
        8 | 9 => Some(576),
        10..=12 if tiny => Some(r.range(49, 130) as usize),
        10..=12 => Some(r.range(577, 1500) as usize),
        13..=15 => Some(r.range(577, 1500) as usize),
        16 => Some(9000),
        17 => Some(r.range(1501, 4000) as usize),
        _ => Some(r.range(131, 575) as usize),
    }
}

pub fn gen_opts(r: &mut Rng, p: &Profile, link_mtu: Option<usize>, max_link_mtu: usize) -> OptsCfg {
    let mut o = OptsCfg { link_mtu, ..Default::default() };
    if p.small_rx && r.chance(0.5) {
        let lo = (2 * max_link_mtu) as u64;
        o.rx_buf = Some(r.log_range(lo, 65536.max(lo * 2)) as usize);
    }
    if p.small_tx && r.chance(0.6) {
        o.tx_init = Some(r.log_range(16, 65536) as usize);
        if r.chance(0.6) {
            // both >= and < initial
            o.tx_max = Some(r.log_range(16, 262_144) as usize);
        }
    }
    o.disable_nagle = r.chance(0.3);
    o.cc_tracing = r.chance(0.1);
    if r.chance(0.5) {
        o.max_retx = Some(r.range(2, 12) as usize);
    }
    if r.chance(0.5) {
        o.inactivity_ms = Some(r.log_range(1000, 600_000));
    }
    if r.chance(0.4) {
        o.mtu_probe_retx = Some(r.below(4) as usize);
    }
    o.dont_wait_lastack = r.chance(0.3);
    o
}

pub fn gen_net(r: &mut Rng, p: &Profile, link_mtus: &[usize], ipv6: bool) -> NetCfg {
    let latency_us = pick_latency_us(r);
    let mut n = NetCfg { seed: r.next(), latency_us, protect_syn: true, ..Default::default() };
    n.jitter_us = match r.below(4) {
        0 => 0,
        1 => r.range(0, 2000),
        2 => latency_us / 2,
        _ => latency_us + r.range(0, 5000),
    };
    if !p.faults {
        return n;
    }
    // Swarm: each fault kind is enabled for a random subset of runs.
    if r.chance(0.7) {
        n.drop_p = *r.pick(&[0.002, 0.01, 0.02, 0.05, 0.1, 0.2]);
    }
    if r.chance(0.2) {
        n.burst = Some((*r.pick(&[0.005, 0.02]), *r.pick(&[0.3, 0.6, 0.8])));
    }
    if r.chance(0.3) {
        n.dup_p = *r.pick(&[0.01, 0.05, 0.2]);
    }
    if p.stale && r.chance(0.2) {
        n.stale_p = *r.pick(&[0.005, 0.02]);
        n.stale_ms = r.range(200, 4000);
    }
    if r.chance(0.2) {
        let t = r.below(5) as usize;
        n.type_drop_p[t] = *r.pick(&[0.1, 0.3, 0.6]);
        n.type_drop_p[4] = 0.0;
    }
    let min_link = *link_mtus.iter().min().unwrap();
    let lo = min_payload(min_link, ipv6) + if ipv6 { 68 } else { 48 };
    if p.blackhole && r.chance(0.25) && min_link > lo {
        n.blackhole_ip = Some(r.range(lo as u64, min_link as u64) as usize);
    }
    if p.emsgsize && r.chance(0.15) && min_link > lo {
        n.emsgsize_ip = Some(r.range(lo as u64, min_link as u64) as usize);
    }
    if p.backpressure && r.chance(0.2) {
        n.pending_p = *r.pick(&[0.01, 0.05, 0.2]);
        n.pending_us = r.range(1, 30_000);
    }
    if p.cuts && r.chance(0.1) {
        let from = r.range(0, 2000);
        n.cuts.push(Cut { from_ms: from, to_ms: Some(from + r.range(10, 3000)), dir: if r.chance(0.5) { CutDir::Both } else { CutDir::From(r.below(2) as usize) } });
    }
    n
}

pub fn gen_writes(r: &mut Rng, total: u64, ring_hint: usize, mss_hint: usize) -> Vec<WOp> {
    let mut ops = vec![];
    let mut left = total;
    if left == 0 {
        return ops;
    }
    let pieces = r.range(1, 4);
    for i in 0..pieces {
        let n = if i + 1 == pieces { left } else { r.range(1, left.max(1)) };
        if n == 0 {
            continue;
        }
        let chunk = match r.below(7) {
            0 => 1,
            1 => mss_hint.saturating_sub(1).max(1),
            2 => mss_hint,
            3 => mss_hint + 1,
            4 => ring_hint.saturating_sub(1).max(1),
            5 => ring_hint + 1,
            _ => r.log_range(1, 65536) as usize,
        };
        // Chunk size 1 with many bytes is slow; cap the number of calls.
        let chunk = chunk.max((n / 4000) as usize + 1);
        ops.push(WOp::Write { n, chunk });
        left -= n;
        if left == 0 {
            break;
        }
        match r.below(5) {
            0 => ops.push(WOp::Flush),
            1 => ops.push(WOp::Sleep(r.log_range(1, 3000))),
            2 => ops.push(WOp::Yield(r.range(1, 3) as u32)),
            _ => {}
        }
    }
    ops
}

pub fn gen_reads(r: &mut Rng, slow: bool) -> Vec<ROp> {
    let mut ops = vec![];
    let buf = match r.below(6) {
        0 => 1,
        1 => r.range(2, 64) as usize,
        2 => 65536,
        _ => r.log_range(64, 16384) as usize,
    };
    let vectored = r.chance(0.25);
    if slow && r.chance(0.35) {
        // paused / slow reader: closes the window
        for _ in 0..r.range(1, 4) {
            ops.push(ROp::Read { n: r.log_range(1, 20000), buf: buf.max(16), vectored });
            ops.push(ROp::Sleep(r.log_range(1, 2500)));
        }
    }
    // Reading byte by byte to the end of a long stream is slow: use at least 16-byte reads for the tail.
    ops.push(ROp::Read { n: u64::MAX, buf: if buf < 16 && r.chance(0.8) { 4096 } else { buf }, vectored });
    ops
}

/// Generic duplex scenario: two real sockets, one connection.
pub fn duplex(seed: u64, family: &str, p: &Profile) -> Scenario {
    let mut r = Rng::new(seed);
    let ipv6 = r.chance(0.25);
    let mtu_a = gen_link_mtu(&mut r, p.tiny_mss);
    let mtu_b = if p.asym_mtu && r.chance(0.3) { gen_link_mtu(&mut r, p.tiny_mss) } else { mtu_a };
    let la = mtu_a.unwrap_or(1500);
    let lb = mtu_b.unwrap_or(1500);
    let max_link = la.max(lb);
    let tiny = la.min(lb) < 200;
    let oa = gen_opts(&mut r, p, mtu_a, max_link);
    let ob = gen_opts(&mut r, p, mtu_b, max_link);
    let net = gen_net(&mut r, p, &[la, lb], ipv6);

    let cap = if tiny { p.max_bytes.min(6_000) } else { p.max_bytes };
    let bytes_a = if r.chance(0.1) { 0 } else { r.log_range(1, cap.max(1)) };
    let bytes_b = if !p.both_dirs || r.chance(0.35) { 0 } else { r.log_range(1, cap.max(1)) };
    // The connector must send something promptly or the acceptor gives up (documented).
    let bytes_a = bytes_a.max(1);

    let mss_a = min_payload(la, ipv6);
    let mss_b = min_payload(lb, ipv6);
    let mut wa = gen_writes(&mut r, bytes_a, oa.tx_init(), mss_a);
    let mut wb = gen_writes(&mut r, bytes_b, ob.tx_init(), mss_b);
    let end = |r: &mut Rng, w: &mut Vec<WOp>| {
        if !p.end_mix {
            w.push(WOp::Flush);
            w.push(WOp::Shutdown);
            return;
        }
        match r.below(6) {
            0 => w.push(WOp::Drop),
            1 => {
                w.push(WOp::Flush);
                w.push(WOp::Shutdown);
            }
            2 => {
                w.push(WOp::Shutdown);
                w.push(WOp::Drop);
            }
            3 => {
                w.push(WOp::Flush);
            }
            _ => w.push(WOp::Shutdown),
        }
    };
    // Application-level framing in most runs: do not close before the peer's stream was read
    // (the library has no half-close: a FIN ends both directions).
    if r.chance(0.65) {
        wa.push(WOp::WaitRead(bytes_b));
        wb.push(WOp::WaitRead(bytes_a));
    }
    end(&mut r, &mut wa);
    end(&mut r, &mut wb);
    let ra = gen_reads(&mut r, p.slow_reader);
    let rb = gen_reads(&mut r, p.slow_reader);

    let mut global = vec![];
    if p.suspend && r.chance(0.05) {
        global.push(GlobalOp::Suspend { at_ms: r.log_range(1, 5000), dur_ms: r.log_range(100, 3_600_000) });
    }

    Scenario {
        family: family.to_string(),
        seed,
        net,
        nodes: vec![
            NodeCfg { ipv6, opts: oa, env: gen_env(&mut r) },
            NodeCfg { ipv6, opts: ob, env: gen_env(&mut r) },
        ],
        connects: vec![ConnectScript { node: 0, to: 1, at_ms: 0, cancel_after_ms: None, side: Side { w: wa, r: ra } }],
        accepts: vec![AcceptScript { node: 1, at_ms: 0, cancel_after_ms: None, side: Side { w: wb, r: rb } }],
        global,
        peer: None,
        attack: None,
        script_cap_ms: 600_000,
        settle_ms: 2_000,
        params: Default::default(),
    }
}

// ------------------------------------------------------------------------------------------
// C03: termination faults inside in-flight activity.

pub fn c03(seed: u64) -> Scenario {
    let mut p = Profile::full(40_000);
    p.tiny_mss = false;
    p.suspend = false;
    p.cuts = false;
    p.emsgsize = false;
    let mut sc = duplex(seed, "c03_termination", &p);
    let mut r = Rng::new(seed ^ 0xC03);
    // Keep death bounds small enough that the run can be judged.
    for n in sc.nodes.iter_mut() {
        n.opts.inactivity_ms = Some(r.log_range(1000, 20_000));
        n.opts.max_retx = Some(r.range(2, 6) as usize);
    }
    // Readers keep reading (no drop): end every read script with read-to-end.
    for side in [&mut sc.connects[0].side, &mut sc.accepts[0].side] {
        side.r.retain(|o| !matches!(o, ROp::Drop));
    }
    let t_fault = r.log_range(1, 3000);
    match r.below(8) {
        0 | 1 => sc.net.cuts.push(Cut { from_ms: t_fault, to_ms: None, dir: CutDir::Both }),
        2 => sc.net.cuts.push(Cut { from_ms: t_fault, to_ms: None, dir: CutDir::From(r.below(2) as usize) }),
        3 => sc.global.push(GlobalOp::Kill { node: r.below(2) as usize, at_ms: t_fault }),
        4 => sc.global.push(GlobalOp::InjectReset { to_node: r.below(2) as usize, at_ms: t_fault }),
        5 => sc.global.push(GlobalOp::Cancel { node: r.below(2) as usize, at_ms: t_fault }),
        6 => {
            // loss concentrated on the FIN exchange
            sc.net.type_drop_p[1] = *r.pick(&[0.3, 0.6, 0.9]);
            if r.chance(0.5) {
                sc.net.type_drop_p[2] = *r.pick(&[0.1, 0.3]);
            }
        }
        _ => {
            // cut the network at the very instant flush/shutdown returned Ok
            let side = if r.chance(0.5) { &mut sc.connects[0].side } else { &mut sc.accepts[0].side };
            let pos = side.w.iter().position(|o| matches!(o, WOp::Flush | WOp::Shutdown));
            let cut = WOp::CutNet { dir: CutDir::Both, drop_in_flight: r.chance(0.5) };
            match pos {
                Some(i) => side.w.insert(i + 1, cut),
                None => {
                    side.w.retain(|o| !matches!(o, WOp::Drop));
                    side.w.push(WOp::Flush);
                    side.w.push(cut);
                }
            }
        }
    }
    let b = sc.nodes.iter().map(|n| n.opts.inactivity_ms().max((n.opts.max_retx() as u64 + 1) * 60_000)).max().unwrap();
    sc.script_cap_ms = 3_000 + 2 * b + 60_000;
    sc.settle_ms = b + 10_000;
    sc
}

/// C03, close races: no external termination fault - one side's close (there is no half-close:
/// a FIN ends both directions) races with data the other side has accepted, queued or in
/// flight, also under loss of the trailing data. Success reported to either writer must still
/// mean delivered, and EOF must come after the bytes that precede the FIN.
pub fn c03_close_races(seed: u64) -> Scenario {
    let mut r = Rng::new(seed ^ 0xC03C);
    let ipv6 = r.chance(0.15);
    // (a link MTU at the protocol minimum switches size probing off: every segment is ordinary)
    let link = match r.below(10) {
        0..=3 => None,
        4..=6 => Some(if ipv6 { 1280 } else { 576 }),
        _ => Some(r.range(600, 1500) as usize),
    };
    let mss = min_payload(link.unwrap_or(1500), ipv6) as u64;
    let lat_ms = *r.pick(&[2u64, 5, 10, 40, 100]);
    let mk = |r: &mut Rng| OptsCfg { link_mtu: link, inactivity_ms: Some(r.log_range(2000, 10_000)), max_retx: Some(r.range(3, 6) as usize), disable_nagle: r.chance(0.3), ..Default::default() };
    let oa = mk(&mut r);
    let ob = mk(&mut r);
    let mut net = NetCfg { seed: r.next(), latency_us: lat_ms * 1000, protect_syn: true, ..Default::default() };
    let rd = |r: &mut Rng| vec![ROp::Read { n: u64::MAX, buf: r.log_range(64, 65536) as usize, vectored: false }];
    let (wa, wb) = match r.below(3) {
        0 => {
            // early peer close: B closes while A has sent its initial window and holds more
            let mut wa = vec![WOp::Write { n: r.range(3, 12) * mss + r.below(mss), chunk: 1 << 20 }];
            if r.chance(0.5) {
                // the writer asks only after the close has played out
                wa.push(WOp::Sleep(r.range(0, 8 * lat_ms + 10)));
            }
            wa.push(WOp::Flush);
            if r.chance(0.5) {
                wa.push(WOp::Shutdown);
            }
            // (mostly before A's first flight can have arrived: the FIN then acknowledges none of it)
            let wb = vec![WOp::Sleep(if r.chance(0.7) { r.range(0, 2 * lat_ms) } else { r.range(0, 4 * lat_ms + 5) }), WOp::Shutdown];
            (wa, wb)
        }
        1 => {
            // simultaneous close, the trailing data of one side may be lost
            let x = r.range(0, 200);
            let wa = vec![WOp::Write { n: r.log_range(1, 4 * mss), chunk: 1 << 20 }, WOp::Sleep(x), WOp::Shutdown];
            let y = (x + lat_ms).saturating_sub(r.below(lat_ms + 1)) + r.below(lat_ms + 1);
            let wb = vec![WOp::Write { n: r.log_range(1, 2 * mss), chunk: 1 << 20 }, WOp::Sleep(y), WOp::Write { n: r.range(1, 2 * mss), chunk: 1 << 20 }, WOp::Shutdown];
            net.type_drop_p[0] = *r.pick(&[0.0, 0.1, 0.3]);
            (wa, wb)
        }
        _ => {
            // one side drops both halves (the writer's Drop; the reader keeps reading in this
            // family) at a random instant while the other is mid-transfer
            let wa = vec![WOp::Write { n: r.log_range(1, 30 * mss), chunk: r.log_range(64, 65536) as usize }, WOp::Flush, WOp::Shutdown];
            let wb = vec![WOp::Write { n: r.log_range(1, 10 * mss), chunk: 1 << 20 }, WOp::Sleep(r.log_range(1, 500)), WOp::Shutdown];
            net.drop_p = *r.pick(&[0.0, 0.02, 0.1]);
            (wa, wb)
        }
    };
    // either node may be the one that closes early
    let (wa, wb) = if r.chance(0.5) { (wa, wb) } else { (wb, wa) };
    // the connector must send something first or the acceptor gives up
    let mut wa = wa;
    if !matches!(wa.first(), Some(WOp::Write { .. })) {
        wa.insert(0, WOp::Write { n: 1, chunk: 1 });
    }
    let b = [&oa, &ob].iter().map(|o| o.inactivity_ms().max((o.max_retx() as u64 + 1) * 60_000)).max().unwrap();
    Scenario {
        family: "c03_close_races".to_string(),
        seed,
        net,
        nodes: vec![NodeCfg { ipv6, opts: oa, env: gen_env(&mut r) }, NodeCfg { ipv6, opts: ob, env: gen_env(&mut r) }],
        connects: vec![ConnectScript { node: 0, to: 1, at_ms: 0, cancel_after_ms: None, side: Side { w: wa, r: rd(&mut r) } }],
        accepts: vec![AcceptScript { node: 1, at_ms: 0, cancel_after_ms: None, side: Side { w: wb, r: rd(&mut r) } }],
        global: vec![],
        peer: None,
        attack: None,
        script_cap_ms: 3_000 + 2 * b + 60_000,
        settle_ms: b + 10_000,
        params: Default::default(),
    }
}

// ------------------------------------------------------------------------------------------
// C02 (a): fair-lossy liveness.

pub fn c02_fair(seed: u64, defaults: bool) -> Scenario {
    let mut r = Rng::new(seed ^ 0xC02A);
    let ipv6 = r.chance(0.2);
    let mtu = if r.chance(0.5) { None } else { Some(r.range(300, 1500) as usize) };
    let link = mtu.unwrap_or(1500);
    let k: u8 = if defaults { 1 } else { r.range(1, 2) as u8 };
    let lat = *r.pick(&[0u64, 1000, 5000, 20_000, 50_000, 100_000]);
    // (library defaults: an accepted connection waits 5 x 200 ms for the initiator's first
    // packet; with one-way delays of 100 ms one lost SYN-ACK plus one lost first data packet
    // end exactly in a tie with that limit, so "defaults are enough" holds below 100 ms only)
    let lat = if defaults { lat.min(80_000) } else { lat };
    let d_max_us: u64 = if defaults { 90_000 } else { *r.pick(&[100_000u64, 400_000, 1_500_000]) };
    let jitter = r.range(0, d_max_us.saturating_sub(lat).min(d_max_us));
    let mut mk = |r: &mut Rng| {
        let mut o = OptsCfg { link_mtu: mtu, ..Default::default() };
        if !defaults {
            // k + ceil(log2(D/200ms)) + 1 < max_retx ; inactivity above the longest legal silent gap
            let extra = ((d_max_us as f64 / 200_000.0).log2().ceil().max(0.0)) as usize;
            o.max_retx = Some(2 * k as usize + extra + 4 + r.below(4) as usize);
            o.inactivity_ms = Some(r.range(240_000, 600_000));
            if r.chance(0.5) {
                o.rx_buf = Some(r.log_range((2 * link) as u64, 65536) as usize);
            }
            if r.chance(0.5) {
                o.tx_init = Some(r.log_range(64, 65536) as usize);
                if r.chance(0.5) {
                    o.tx_max = Some(r.log_range(64, 262_144) as usize);
                }
            }
            o.disable_nagle = r.chance(0.3);
            if r.chance(0.3) {
                o.mtu_probe_retx = Some(r.below(3) as usize);
            }
        }
        o
    };
    let oa = mk(&mut r);
    let ob = mk(&mut r);
    let fault_until = r.range(500, 20_000);
    let b_ms = [&oa, &ob].iter().map(|o| o.inactivity_ms() + (o.max_retx() as u64 + 1) * 60_000).max().unwrap() + 10_000;
    let net = NetCfg {
        seed: r.next(),
        latency_us: lat,
        jitter_us: jitter,
        drop_p: *r.pick(&[0.01, 0.03, 0.1, 0.25]),
        dup_p: *r.pick(&[0.0, 0.02, 0.1]),
        drop_budget: Some(k),
        // With library defaults the backed-off RTO (kept until the next valid RTT sample) must
        // stay below the 10 s inactivity time-out: bound the total number of drops.
        drop_total: if defaults { Some(r.range(1, 3) as u32) } else { None },
        protect_syn: true,
        // "On an established connection": random faults start once the handshake and the
        // initiator's first packet are through (SYN, SYN-ACK, first DATA + margin).
        fault_from_ms: Some((3 * lat).div_ceil(1000) + 5),
        fault_until_ms: Some(fault_until),
        ..Default::default()
    };
    let bytes_a = r.log_range(1, 60_000);
    let bytes_b = if r.chance(0.4) { 0 } else { r.log_range(1, 60_000) };
    let mut wa = gen_writes(&mut r, bytes_a, oa.tx_init(), min_payload(link, ipv6));
    let mut wb = gen_writes(&mut r, bytes_b, ob.tx_init(), min_payload(link, ipv6));
    wa.push(WOp::Flush);
    wa.push(WOp::WaitRead(bytes_b));
    wa.push(WOp::Shutdown);
    wb.push(WOp::Flush);
    wb.push(WOp::WaitRead(bytes_a));
    wb.push(WOp::Shutdown);
    let slow = !defaults && r.chance(0.3);
    let mk_reads = |r: &mut Rng| -> Vec<ROp> {
        let mut v = vec![];
        if slow {
            v.push(ROp::Sleep(r.log_range(10, 3000)));
        }
        v.push(ROp::Read { n: u64::MAX, buf: r.log_range(16, 65536) as usize, vectored: r.chance(0.2) });
        v
    };
    let ra = mk_reads(&mut r);
    let rb = mk_reads(&mut r);
    let mut params = std::collections::BTreeMap::new();
    params.insert("c02_mode".to_string(), 0);
    Scenario {
        family: if defaults { "c02_fair_defaults" } else { "c02_fair" }.to_string(),
        seed,
        net,
        nodes: vec![NodeCfg { ipv6, opts: oa, env: gen_env(&mut r) }, NodeCfg { ipv6, opts: ob, env: gen_env(&mut r) }],
        connects: vec![ConnectScript { node: 0, to: 1, at_ms: 0, cancel_after_ms: None, side: Side { w: wa, r: ra } }],
        accepts: vec![AcceptScript { node: 1, at_ms: 0, cancel_after_ms: None, side: Side { w: wb, r: rb } }],
        global: vec![],
        peer: None,
        attack: None,
        // last fault instant + the longest legitimate recovery (RTO may have backed off to its
        // 60 s cap): defaults 120 s, otherwise inactivity + (cap + 1) x 60 s.
        script_cap_ms: fault_until + if defaults { 120_000 } else { b_ms },
        settle_ms: 1_000,
        params,
    }
}

/// Systematic single-/pair-drop placement: a seeded fault-free scenario re-run with exactly
/// the datagrams `drops` (attempt ordinals) dropped.
pub fn c02_placement(seed: u64, drops: &[u64]) -> Scenario {
    let mut sc = c02_fair(seed, true);
    sc.family = "c02_placement".into();
    sc.net.jitter_us = 0;
    sc.net.drop_p = 0.0;
    sc.net.dup_p = 0.0;
    sc.net.explicit = Some(drops.iter().map(|a| crate::net::Decision { att: *a, drop: true, ..Default::default() }).collect());
    sc.script_cap_ms = 150_000;
    sc
}

// ------------------------------------------------------------------------------------------
// C02 (b): loss-free promptness.

pub fn c02_prompt(seed: u64) -> Scenario {
    let mut r = Rng::new(seed ^ 0xC02B);
    let ipv6 = r.chance(0.2);
    let mtu = if r.chance(0.5) { None } else { Some(r.range(300, 1500) as usize) };
    let link = mtu.unwrap_or(1500);
    let lat = *r.pick(&[0u64, 1000, 3000, 10_000, 25_000, 60_000, 120_000, 200_000]);
    let mut mk = |r: &mut Rng| {
        let mut o = OptsCfg { link_mtu: mtu, ..Default::default() };
        if r.chance(0.5) {
            o.tx_init = Some(r.log_range(256, 65536) as usize);
        }
        o.disable_nagle = r.chance(0.3);
        // a receive buffer of a few segments: the window closes and must be re-opened by the
        // (prompt) reader, also after path MTU discovery has grown the segment size
        if r.chance(0.3) {
            o.rx_buf = Some(r.log_range(2_000, 30_000) as usize);
        }
        o
    };
    let oa = mk(&mut r);
    let ob = mk(&mut r);
    let net = NetCfg { seed: r.next(), latency_us: lat, protect_syn: true, ..Default::default() };
    let gen_side = |r: &mut Rng, o: &OptsCfg, must_write: bool| -> (Vec<WOp>, u64) {
        let mut w = vec![];
        let mut total = 0u64;
        let pieces = if must_write { r.range(1, 5) } else { r.range(0, 4) };
        for i in 0..pieces {
            if i > 0 || (!must_write && r.chance(0.3)) {
                // pause long enough for the connection to become idle sometimes
                w.push(WOp::Sleep(r.log_range(1, 2500)));
            }
            let n = r.log_range(1, 30_000);
            total += n;
            let chunk = *r.pick(&[1usize, 100, 527, 528, 1400, 4096, 65536]);
            w.push(WOp::Write { n, chunk: chunk.max((n / 2000) as usize + 1) });
            if r.chance(0.4) {
                w.push(WOp::Flush);
            }
        }
        let _ = o;
        (w, total)
    };
    let (mut wa, ta) = gen_side(&mut r, &oa, true);
    let (mut wb, tb) = gen_side(&mut r, &ob, false);
    for (w, peer_total) in [(&mut wa, tb), (&mut wb, ta)] {
        w.push(WOp::Flush);
        // application-level framing: close only after the peer's stream was read
        w.push(WOp::WaitRead(peer_total));
        if r.chance(0.5) {
            w.push(WOp::Sleep(r.log_range(1, 2500)));
        }
        w.push(WOp::Shutdown);
    }
    let reads = |r: &mut Rng| vec![ROp::Read { n: u64::MAX, buf: r.log_range(64, 65536) as usize, vectored: false }];
    let ra = reads(&mut r);
    let rb = reads(&mut r);
    let _ = link;
    let mut params = std::collections::BTreeMap::new();
    params.insert("c02_mode".to_string(), 1);
    Scenario {
        family: "c02_prompt".to_string(),
        seed,
        net,
        nodes: vec![NodeCfg { ipv6, opts: oa, env: gen_env(&mut r) }, NodeCfg { ipv6, opts: ob, env: gen_env(&mut r) }],
        connects: vec![ConnectScript { node: 0, to: 1, at_ms: 0, cancel_after_ms: None, side: Side { w: wa, r: ra } }],
        accepts: vec![AcceptScript { node: 1, at_ms: 0, cancel_after_ms: None, side: Side { w: wb, r: rb } }],
        global: vec![],
        peer: None,
        attack: None,
        script_cap_ms: 120_000,
        settle_ms: 6_000,
        params,
    }
}

// ------------------------------------------------------------------------------------------
// C08: open -> transfer -> close cycles against a small connection limit.

pub fn c08_cycles(seed: u64) -> Scenario {
    let mut r = Rng::new(seed ^ 0xC08);
    let ipv6 = r.chance(0.2);
    let mut mk = |r: &mut Rng| OptsCfg {
        max_live: Some(r.range(1, 4) as usize),
        inactivity_ms: Some(r.log_range(1000, 10_000)),
        max_retx: Some(r.range(2, 4) as usize),
        rx_buf: if r.chance(0.3) { Some(r.log_range(3000, 65536) as usize) } else { None },
        tx_init: if r.chance(0.3) { Some(r.log_range(64, 65536) as usize) } else { None },
        dont_wait_lastack: r.chance(0.3),
        disable_nagle: r.chance(0.3),
        ..Default::default()
    };
    let oa = mk(&mut r);
    let ob = mk(&mut r);
    let b = [&oa, &ob].iter().map(|o| o.inactivity_ms().max((o.max_retx() as u64 + 1) * 60_000) + 7_000).max().unwrap();
    let mut net = NetCfg { seed: r.next(), latency_us: pick_latency_us(&mut r).min(100_000), protect_syn: true, ..Default::default() };
    net.jitter_us = r.range(0, 3000);
    if r.chance(0.7) {
        // loss concentrated on closing packets
        net.type_drop_p[1] = *r.pick(&[0.2, 0.5, 0.8]);
    }
    if r.chance(0.5) {
        net.drop_p = *r.pick(&[0.01, 0.05, 0.15]);
    }
    if r.chance(0.2) {
        net.type_drop_p[2] = *r.pick(&[0.1, 0.3]);
    }
    if r.chance(0.15) {
        net.dup_p = 0.05;
    }
    let cycles = oa.max_live().max(ob.max_live()) + r.range(1, 3) as usize;
    let gap = 20_000 + b; // every cycle has ended (or is overdue) before the next starts
    let mut connects = vec![];
    let mut accepts = vec![];
    let mut global = vec![];
    let close = |r: &mut Rng, w: &mut Vec<WOp>, rd: &mut Vec<ROp>| {
        // every mix of drop / shutdown / wait for peer FIN
        match r.below(6) {
            0 => {
                w.push(WOp::Drop);
                rd.insert(0, ROp::Drop);
            }
            1 => {
                w.push(WOp::Shutdown);
            }
            2 => {
                w.push(WOp::Shutdown);
                w.push(WOp::Drop);
                rd.push(ROp::Drop);
            }
            3 => {
                w.push(WOp::Sleep(r.log_range(1, 2000)));
                w.push(WOp::Drop);
                rd.push(ROp::Drop);
            }
            4 => {
                w.push(WOp::Flush);
                w.push(WOp::Drop);
                rd.push(ROp::Drop);
            }
            _ => {
                // hold: rely on the peer's close
            }
        }
    };
    for i in 0..cycles {
        let at = 10 + i as u64 * gap;
        let (cn, an) = if r.chance(0.8) { (0, 1) } else { (1, 0) };
        let mut wa = vec![WOp::Write { n: r.log_range(8, 20_000), chunk: r.log_range(8, 8192) as usize }];
        let mut ra = vec![ROp::Read { n: u64::MAX, buf: 4096, vectored: false }];
        let mut wb = if r.chance(0.5) { vec![WOp::Write { n: r.log_range(1, 20_000), chunk: r.log_range(8, 8192) as usize }] } else { vec![] };
        let mut rb = vec![ROp::Read { n: u64::MAX, buf: 4096, vectored: false }];
        close(&mut r, &mut wa, &mut ra);
        close(&mut r, &mut wb, &mut rb);
        // at least one side lets go
        if !wa.iter().any(|o| matches!(o, WOp::Drop | WOp::Shutdown)) && !wb.iter().any(|o| matches!(o, WOp::Drop | WOp::Shutdown)) {
            wa.push(WOp::Shutdown);
        }
        connects.push(ConnectScript { node: cn, to: an, at_ms: at, cancel_after_ms: None, side: Side { w: wa, r: ra } });
        accepts.push(AcceptScript { node: an, at_ms: at.saturating_sub(5), cancel_after_ms: None, side: Side { w: wb, r: rb } });
    }
    match r.below(10) {
        0 => global.push(GlobalOp::Cancel { node: r.below(2) as usize, at_ms: r.range(0, cycles as u64 * gap) }),
        1 => global.push(GlobalOp::InjectReset { to_node: r.below(2) as usize, at_ms: 10 + r.below(cycles as u64) * gap + r.log_range(1, 3000) }),
        2 => global.push(GlobalOp::Suspend { at_ms: 10 + r.below(cycles as u64) * gap + r.log_range(1, 3000), dur_ms: r.log_range(100, 600_000) }),
        3 => net.cuts.push(Cut { from_ms: 10 + r.below(cycles as u64) * gap + r.log_range(1, 3000), to_ms: Some(10 + cycles as u64 * gap), dir: CutDir::Both }),
        _ => {}
    }
    Scenario {
        family: "c08_cycles".to_string(),
        seed,
        net,
        nodes: vec![NodeCfg { ipv6, opts: oa, env: gen_env(&mut r) }, NodeCfg { ipv6, opts: ob, env: gen_env(&mut r) }],
        connects,
        accepts,
        global,
        peer: None,
        attack: None,
        script_cap_ms: cycles as u64 * gap + 10_000,
        settle_ms: b + 10_000,
        params: Default::default(),
    }
}

// ------------------------------------------------------------------------------------------
// C14: path-MTU discovery.

pub fn c14_blackhole(seed: u64) -> Scenario {
    let mut p = Profile::full(120_000);
    p.tiny_mss = false;
    p.cuts = false;
    p.suspend = false;
    p.stale = false;
    let mut sc = duplex(seed, "c14_blackhole", &p);
    let mut r = Rng::new(seed ^ 0xC14);
    // Always a size limit on the path; loss restricted to non-probe datagrams.
    let la = sc.nodes[0].opts.link_mtu();
    let lb = sc.nodes[1].opts.link_mtu();
    let ipv6 = sc.nodes[0].ipv6;
    let min_link = la.min(lb);
    let lo = min_payload(min_link, ipv6) + if ipv6 { 68 } else { 48 };
    if min_link > lo {
        let limit = r.range(lo as u64, min_link as u64) as usize;
        if r.chance(0.7) {
            sc.net.blackhole_ip = Some(limit);
            sc.net.emsgsize_ip = None;
        } else {
            sc.net.emsgsize_ip = Some(limit);
            sc.net.blackhole_ip = if r.chance(0.3) { Some(r.range(lo as u64, limit as u64) as usize) } else { None };
        }
    }
    sc.net.spare_probes = true;
    sc
}

pub fn c14_converge(seed: u64) -> Scenario {
    let mut r = Rng::new(seed ^ 0xC14C);
    let ipv6 = r.chance(0.3);
    let floor_mtu = if ipv6 { 1280 } else { 576 };
    let link = match r.below(4) {
        0 => 1500,
        1 => 9000,
        _ => r.range(floor_mtu as u64 + 10, 4000) as usize,
    };
    let path = if r.chance(0.15) { link } else { r.range(floor_mtu as u64, link as u64) as usize };
    let o = OptsCfg {
        link_mtu: Some(link),
        mtu_probe_retx: Some(r.below(3) as usize),
        inactivity_ms: Some(600_000),
        max_retx: Some(12),
        tx_init: Some(r.log_range(8192, 262_144) as usize),
        ..Default::default()
    };
    let mut net = NetCfg { seed: r.next(), latency_us: *r.pick(&[0u64, 1000, 10_000, 40_000]), protect_syn: true, spare_probes: true, ..Default::default() };
    if path < link {
        if r.chance(0.7) {
            net.blackhole_ip = Some(path);
        } else {
            net.emsgsize_ip = Some(path);
        }
    }
    if r.chance(0.4) {
        // Loss of non-probe data segments only. A lost probe or a lost acknowledgement of a
        // probe is indistinguishable from "too big" by design, so convergence to the exact
        // size is only decidable when those are spared.
        net.type_drop_p[0] = *r.pick(&[0.002, 0.01]);
    }
    // >= 200 segments at the largest size, plus the probing phase
    let seg = max_payload(path, ipv6) as u64;
    let n = 260 * seg + r.range(0, 50_000);
    let mut params = std::collections::BTreeMap::new();
    params.insert("c14_converge".to_string(), 1);
    Scenario {
        family: "c14_converge".to_string(),
        seed,
        net,
        nodes: vec![NodeCfg { ipv6, opts: o.clone(), env: gen_env(&mut r) }, NodeCfg { ipv6, opts: o, env: gen_env(&mut r) }],
        connects: vec![ConnectScript { node: 0, to: 1, at_ms: 0, cancel_after_ms: None, side: Side { w: vec![WOp::Write { n, chunk: 65536 }, WOp::Flush, WOp::Shutdown], r: vec![ROp::Read { n: u64::MAX, buf: 65536, vectored: false }] } }],
        accepts: vec![AcceptScript { node: 1, at_ms: 0, cancel_after_ms: None, side: Side { w: vec![], r: vec![ROp::Read { n: u64::MAX, buf: 65536, vectored: false }] } }],
        global: vec![],
        peer: None,
        attack: None,
        script_cap_ms: 3_600_000,
        settle_ms: 2_000,
        params,
    }
}

/// C14: a steady path whose round-trip time sits right at the retransmission time-out (the
/// estimator converges on RTT + 10 ms, never below 200 ms): acknowledgements arrive in the very
/// millisecond in which the timer expires. Both sockets read their clock with a seeded
/// sub-millisecond offset, so a poll started by an arriving packet can find the timer expired.
/// No loss; optionally a size black-hole so that probes really are lost.
pub fn c14_near_rto(seed: u64) -> Scenario {
    let mut r = Rng::new(seed ^ 0xC14D);
    let ipv6 = r.chance(0.2);
    let floor_mtu = if ipv6 { 1280 } else { 576 };
    let link = *r.pick(&[1500usize, 1500, 4000, 9000]);
    let path = if r.chance(0.4) { link } else { r.range(floor_mtu as u64 + 40, link as u64) as usize };
    let o = OptsCfg {
        link_mtu: Some(link),
        mtu_probe_retx: Some(if r.chance(0.7) { 0 } else { 1 }),
        inactivity_ms: Some(600_000),
        max_retx: Some(12),
        disable_nagle: r.chance(0.3),
        ..Default::default()
    };
    // one-way latency so that RTT (+ the peer's delayed ACK) lands between 180 and 320 ms
    let lat_us = r.range(70_000, 150_000);
    let mut net = NetCfg { seed: r.next(), latency_us: lat_us, jitter_us: r.range(0, 30_000), protect_syn: true, ..Default::default() };
    // now and then a packet is late by up to the margin the time-out keeps over the round trip
    net.stale_p = *r.pick(&[0.1, 0.2, 0.4]);
    net.stale_ms = r.range(15, 120);
    if path < link {
        net.blackhole_ip = Some(path);
    }
    let seg = max_payload(path, ipv6) as u64;
    let mut w = vec![];
    for _ in 0..r.range(3, 12) {
        w.push(WOp::Write { n: r.range(2, 12) * seg + r.below(seg), chunk: 65536 });
        if r.chance(0.6) {
            w.push(WOp::Sleep(r.range(1, 900)));
        }
    }
    w.push(WOp::Flush);
    w.push(WOp::Shutdown);
    let mut env_a = gen_env(&mut r);
    let mut env_b = gen_env(&mut r);
    env_a.now_jitter_us = 999;
    env_b.now_jitter_us = 999;
    Scenario {
        family: "c14_near_rto".to_string(),
        seed,
        net,
        nodes: vec![NodeCfg { ipv6, opts: o.clone(), env: env_a }, NodeCfg { ipv6, opts: o, env: env_b }],
        connects: vec![ConnectScript { node: 0, to: 1, at_ms: 0, cancel_after_ms: None, side: Side { w, r: vec![ROp::Read { n: u64::MAX, buf: 65536, vectored: false }] } }],
        accepts: vec![AcceptScript { node: 1, at_ms: 0, cancel_after_ms: None, side: Side { w: vec![], r: vec![ROp::Read { n: u64::MAX, buf: 65536, vectored: false }] } }],
        global: vec![],
        peer: None,
        attack: None,
        script_cap_ms: 600_000,
        settle_ms: 2_000,
        params: Default::default(),
    }
}

// ------------------------------------------------------------------------------------------
// C11: corruption on the receive path.

pub fn c11_corrupt(seed: u64) -> Scenario {
    let mut p = Profile::full(20_000);
    p.tiny_mss = false;
    p.cuts = false;
    p.suspend = false;
    p.emsgsize = false;
    p.blackhole = false;
    let mut sc = duplex(seed, "c11_corrupt", &p);
    let mut r = Rng::new(seed ^ 0xC11);
    sc.net.corrupt_p = *r.pick(&[0.02, 0.1, 0.3]);
    sc.net.corrupt_kinds = vec![0, 1, 2, 3, 4, 5, 6, 8];
    for n in sc.nodes.iter_mut() {
        n.opts.inactivity_ms = Some(r.log_range(1000, 8000));
        n.opts.max_retx = Some(r.range(2, 5) as usize);
    }
    sc.script_cap_ms = 120_000;
    sc
}

/// Only semantics-preserving corruption (an unknown extension appended to the chain): the
/// byte stream must be unaffected, so the C01 oracle applies.
pub fn c11_unknown_ext(seed: u64) -> Scenario {
    let mut p = Profile::full(30_000);
    p.tiny_mss = false;
    p.cuts = false;
    p.suspend = false;
    p.blackhole = false;
    p.emsgsize = false;
    let mut sc = duplex(seed, "c11_unknown_ext", &p);
    let mut r = Rng::new(seed ^ 0xC11E);
    sc.net.corrupt_p = *r.pick(&[0.1, 0.5, 1.0]);
    sc.net.corrupt_kinds = vec![4];
    // The extension makes datagrams up to 10 bytes larger: keep clear of size limits.
    sc.net.blackhole_ip = None;
    sc.net.emsgsize_ip = None;
    sc
}

// ------------------------------------------------------------------------------------------
// Extremes for the in-situ C15/C16 oracles: zero RTT, very long delays, suspend jumps, long
// back-off chains, tiny/zero peer windows, MSS steps.

pub fn extremes(seed: u64, family: &str) -> Scenario {
    let mut p = Profile::full(60_000);
    p.tiny_mss = true;
    let mut sc = duplex(seed, family, &p);
    let mut r = Rng::new(seed ^ 0xE77);
    match r.below(5) {
        0 => {
            sc.net.latency_us = 0;
            sc.net.jitter_us = 0;
        }
        1 => {
            // multi-second delays
            sc.net.latency_us = r.range(500_000, 20_000_000);
            sc.net.jitter_us = r.range(0, 10_000_000);
        }
        2 => {
            sc.global.push(GlobalOp::Suspend { at_ms: r.log_range(1, 3000), dur_ms: r.log_range(1000, 7_200_000) });
        }
        3 => {
            // long back-off chains: cut for a long while, many retransmissions allowed
            for n in sc.nodes.iter_mut() {
                n.opts.max_retx = Some(12);
                n.opts.inactivity_ms = Some(3_600_000);
            }
            let from = r.log_range(1, 2000);
            sc.net.cuts.push(Cut { from_ms: from, to_ms: Some(from + r.log_range(1000, 900_000)), dir: CutDir::Both });
        }
        _ => {
            // slow reader with small buffer: zero / tiny peer windows
            let big = sc.nodes.iter().map(|n| n.opts.link_mtu()).max().unwrap();
            sc.nodes[1].opts.rx_buf = Some(2 * big + r.below(2000) as usize);
            sc.accepts[0].side.r = vec![ROp::Sleep(r.log_range(10, 4000)), ROp::Read { n: r.log_range(1, 3000), buf: 512, vectored: false }, ROp::Sleep(r.log_range(10, 4000)), ROp::Read { n: u64::MAX, buf: 4096, vectored: false }];
        }
    }
    sc.script_cap_ms = 7_200_000 + 2_000_000;
    sc
}

// ------------------------------------------------------------------------------------------
// Scripted-peer worlds.

use crate::peer::{AckMode, AutoCfg, PeerRole, PeerScript, PeerStep, RxModel, SackSpec};

fn peer_base(r: &mut Rng) -> (bool, PeerRole, u16, u16) {
    let ipv6 = r.chance(0.2);
    let role = if r.chance(0.5) { PeerRole::Connector } else { PeerRole::Acceptor };
    let isn = match r.below(4) {
        0 => 65535u16.wrapping_sub(r.below(30) as u16),
        1 => r.below(3) as u16,
        _ => r.next() as u16,
    };
    let conn_id = match r.below(4) {
        0 => 65534u16.wrapping_add(r.below(3) as u16),
        _ => r.next() as u16,
    };
    (ipv6, role, isn, conn_id)
}

fn wait_ms(r: &mut Rng, paced: bool) -> u64 {
    let w = *r.pick(&[0u64, 0, 1, 1, 2, 5, 10, 20, 39, 40, 41, 45, 80, 100, 150, 200]);
    if paced { w.max(1) } else { w }
}

/// The peer is the sender: the real endpoint receives (C04, C07, C17).
/// `exact`: compliant, paced sender (full-size packets inside the window, at most one datagram
/// per instant) so that equality oracles are decidable. Otherwise hostile extras are mixed in.
pub fn peer_sender(seed: u64, family: &str, exact: bool) -> Scenario {
    let mut r = Rng::new(seed ^ 0x5E4D);
    let (ipv6, role, isn, conn_id) = peer_base(&mut r);
    let link = if r.chance(0.5) { None } else { Some(r.range(if ipv6 { 1300 } else { 600 }, 1500) as usize) };
    let link_v = link.unwrap_or(1500);
    let mss = min_payload(link_v, ipv6);
    let maxp = max_payload(link_v, ipv6);
    let mut opts = OptsCfg { link_mtu: link, ..Default::default() };
    // "wide hole" shape (exact mode): one early packet arrives after 33-66 later ones, so the
    // selective-ACK bitmap is walked through every length up to and beyond its 32- and 64-bit
    // boundaries while the cumulative acknowledgement stands still
    let wide_hole = exact && r.chance(0.08);
    let n_pkts = if wide_hole { r.range(40, 75) as usize } else { r.range(1, if exact { 40 } else { 60 }) as usize };
    // receive buffer: large, or small enough to matter
    let small_rx = r.chance(0.5);
    if small_rx {
        // exact mode: every out-of-order packet must fit a reassembly slot (displacement <= 6)
        opts.rx_buf = Some(if exact { r.range((16 * link_v) as u64, (40 * link_v) as u64) } else { r.range((2 * link_v) as u64, (12 * link_v) as u64) } as usize);
    }
    opts.inactivity_ms = Some(r.log_range(2000, 60_000));
    opts.max_retx = Some(r.range(3, 6) as usize);
    // packet sizes
    let mut pkts: Vec<u16> = (0..n_pkts)
        .map(|_| {
            if exact {
                // sizes the endpoint itself would use (so they fit its reassembly slots)
                if r.chance(0.7) { mss as u16 } else { r.range(1, mss as u64) as u16 }
            } else {
                match r.below(6) {
                    0 => 1,
                    1 => r.range(1, mss as u64) as u16,
                    2 => mss as u16,
                    3 => r.range(mss as u64, maxp as u64) as u16,
                    4 => r.range(1, 3000) as u16,
                    _ => mss as u16,
                }
            }
        })
        .collect();
    // arrival order
    let mut steps: Vec<PeerStep> = vec![];
    let mut order: Vec<usize> = (0..n_pkts).collect();
    // local displacements
    let swaps = if r.chance(0.3) { 0 } else { r.range(0, (n_pkts / 2) as u64) };
    for _ in 0..swaps {
        let i = r.below(n_pkts as u64) as usize;
        let j = (i + r.range(1, 6) as usize).min(n_pkts - 1);
        order.swap(i, j);
    }
    if wide_hole {
        let i = r.below(4) as usize;
        let d = r.range(33, (n_pkts - 1 - i).min(68) as u64) as usize;
        if let Some(pos) = order.iter().position(|x| *x == i) {
            let x = order.remove(pos);
            order.insert((pos + d).min(order.len()), x);
        }
    }
    // exact mode: every packet must fit a reassembly slot when it arrives: the buffer has to
    // cover the largest distance a packet runs ahead of the in-order point
    if exact {
        let mut sent = vec![false; n_pkts];
        let mut cum = 0usize;
        let mut max_ahead = 0usize;
        for i in &order {
            max_ahead = max_ahead.max(i.saturating_sub(cum));
            sent[*i] = true;
            while cum < n_pkts && sent[cum] {
                cum += 1;
            }
        }
        let need = (max_ahead + 6) * link_v;
        if opts.rx_buf() < need {
            opts.rx_buf = Some(need);
        }
    }
    let rx_buf = opts.rx_buf();
    // In exact mode stay inside the advertised window: never send more than what fits the
    // buffer ahead of what the reader can have taken (the reader is fast in exact mode).
    let mut in_flight_bytes: u64 = 0;
    for (k, i) in order.iter().enumerate() {
        if exact {
            in_flight_bytes += pkts[*i] as u64;
            if in_flight_bytes + 2 * mss as u64 > rx_buf as u64 / 2 {
                // let the reader catch up
                steps.push(PeerStep::Wait(50));
                in_flight_bytes = 0;
            }
        }
        steps.push(PeerStep::SendPkt(*i));
        if r.chance(0.12) {
            // duplicate (now or later)
            if r.chance(0.5) {
                steps.push(PeerStep::Wait(wait_ms(&mut r, exact)));
            }
            steps.push(PeerStep::SendPkt(*r.pick(&order[..=k])));
        }
        if !exact && r.chance(0.08) {
            match r.below(5) {
                0 => steps.push(PeerStep::RogueData { rel: r.range(n_pkts as u64 + 2, n_pkts as u64 + 3000) as i32, len: r.range(1, 2000) as u16 }),
                1 => steps.push(PeerStep::RogueData { rel: -(r.range(1, 2000) as i32), len: r.range(1, 2000) as u16 }),
                2 => steps.push(PeerStep::Fin { at: Some(r.below(n_pkts as u64) as usize) }),
                3 => steps.push(PeerStep::Ack { ack_delta: r.range(0, 5) as i32 - 2, wnd: Some(r.log_range(1, 1 << 20) as u32), sack: SackSpec::Auto }),
                _ => steps.push(PeerStep::HandshakeDup),
            }
        }
        let w = wait_ms(&mut r, exact);
        steps.push(PeerStep::Wait(w));
    }
    let fin = r.chance(0.7);
    let n_pkts = pkts.len();
    // exact mode, "repeated FIN": the peer does not see the endpoint's answer (it neither
    // acknowledges the endpoint's FIN nor anything else for a while) and sends its FIN again
    let fin_repeat = exact && fin && r.chance(0.15);
    if fin_repeat {
        let quiet = AutoCfg { ack: AckMode::Manual, sack: true, answer_fin: false, rx_model: None };
        steps.push(PeerStep::SetAuto(quiet));
        steps.push(PeerStep::Fin { at: None });
        for _ in 0..r.range(1, 3) {
            steps.push(PeerStep::Wait(r.range(20, 150)));
            // (the endpoint's FIN did not arrive either: the repeated FIN does not acknowledge it)
            steps.push(PeerStep::FinStale { back: 1 });
        }
        steps.push(PeerStep::Wait(r.range(20, 100)));
        steps.push(PeerStep::SetAuto(AutoCfg { ack: AckMode::Immediate, sack: true, answer_fin: true, rx_model: None }));
        steps.push(PeerStep::Ack { ack_delta: 0, wnd: None, sack: SackSpec::Auto });
    } else if fin {
        steps.push(PeerStep::Fin { at: None });
        if !exact && r.chance(0.3) {
            steps.push(PeerStep::Wait(wait_ms(&mut r, false)));
            steps.push(PeerStep::RogueData { rel: n_pkts as i32 + 2, len: 100 });
            steps.push(PeerStep::SendPkt(r.below(n_pkts as u64) as usize));
        }
    } else if !exact && r.chance(0.2) {
        steps.push(PeerStep::Reset);
    }
    steps.push(PeerStep::Wait(300));
    // exact sub-variant: a compliant sender fills the advertised window exactly while the reader
    // sleeps (window closes), then the reader drains (window must be re-announced at once)
    let zero_window_variant = exact && r.chance(0.2);
    let mut quick_reader = false;
    if zero_window_variant {
        let buf = r.range((3 * link_v) as u64, (8 * link_v) as u64) as usize;
        opts.rx_buf = Some(buf);
        // segment size of the sender: the smallest one, or a larger one that the path carries
        // (the endpoint's own segment size - the unit it rounds its window to - grows with it)
        let s = if r.chance(0.5) || maxp <= mss + 1 { mss } else { r.range(mss as u64 + 1, maxp as u64) as usize };
        let mut k = buf / s; // whole segments that fit: afterwards the advertised window is 0
        if s > mss + 60 && r.chance(0.4) {
            // one large packet both grows the endpoint's segment size and closes its window:
            // what is left is at least one initial segment but less than one of the new size
            let rem = r.range(mss as u64, s as u64 - 1) as usize;
            opts.rx_buf = Some(s + rem);
            k = 1;
            // the reader drains right behind the packet, before any timer polls the connection
            quick_reader = r.chance(0.6);
        }
        pkts = vec![s as u16; k];
        steps.clear();
        for i in 0..k {
            steps.push(PeerStep::SendPkt(i));
            steps.push(PeerStep::Wait(wait_ms(&mut r, true).min(20)));
        }
        steps.push(PeerStep::Wait(4000));
    }
    // endpoint application
    let reader: Vec<ROp> = if zero_window_variant {
        let nap = if quick_reader { r.range(3, 35) } else { r.range(800, 2500) };
        vec![ROp::Sleep(nap), ROp::Read { n: u64::MAX, buf: r.log_range(64, 65536) as usize, vectored: false }]
    } else if exact {
        vec![ROp::Read { n: u64::MAX, buf: r.log_range(64, 65536) as usize, vectored: r.chance(0.2) }]
    } else {
        match r.below(5) {
            0 => vec![ROp::Read { n: u64::MAX, buf: r.log_range(1, 65536).max(16) as usize, vectored: false }],
            1 => vec![ROp::Sleep(r.log_range(10, 3000)), ROp::Read { n: u64::MAX, buf: 4096, vectored: false }],
            2 => vec![ROp::Read { n: r.log_range(1, 5000), buf: 512, vectored: false }, ROp::Sleep(r.log_range(100, 3000)), ROp::Read { n: u64::MAX, buf: 4096, vectored: false }],
            3 => vec![ROp::Read { n: r.log_range(1, 5000), buf: 512, vectored: false }, ROp::Drop],
            _ => vec![ROp::Sleep(r.log_range(500, 5000)), ROp::Read { n: u64::MAX, buf: 65536, vectored: true }],
        }
    };
    let mut writer: Vec<WOp> = vec![];
    if role == PeerRole::Acceptor {
        // the endpoint is the initiator: it must send something first
        writer.push(WOp::Write { n: r.range(1, 600), chunk: 4096 });
    } else if r.chance(0.3) {
        writer.push(WOp::Write { n: r.range(1, 3000), chunk: 4096 });
    }
    // the endpoint's own sender is blocked by a closed or tiny peer window while it receives
    // (its acknowledgements cannot ride on data packets then)
    let blocked_sender = exact && !zero_window_variant && r.chance(0.2);
    if blocked_sender {
        writer.push(WOp::Write { n: r.range(200, 4000), chunk: 4096 });
    }
    if !exact {
        match r.below(4) {
            0 => writer.push(WOp::Shutdown),
            1 => {
                writer.push(WOp::Sleep(r.log_range(1, 3000)));
                writer.push(WOp::Drop);
            }
            _ => {}
        }
    }
    let peer = PeerScript {
        role,
        isn,
        conn_id,
        wnd: if blocked_sender { *r.pick(&[0u32, 0, 1, 50, 300]) } else { 1 << 20 },
        auto: AutoCfg { ack: AckMode::Immediate, sack: true, answer_fin: true, rx_model: None },
        pkts,
        steps,
        start_ms: 0,
        synack_delay_ms: r.range(0, 50),
    };
    let side = Side { w: writer, r: reader };
    let (connects, accepts) = match role {
        PeerRole::Connector => (vec![], vec![AcceptScript { node: 0, at_ms: 0, cancel_after_ms: None, side }]),
        PeerRole::Acceptor => (vec![ConnectScript { node: 0, to: 1, at_ms: 0, cancel_after_ms: None, side }], vec![]),
    };
    let mut params = std::collections::BTreeMap::new();
    params.insert("peer_exact".to_string(), exact as i64);
    params.insert("peer_fin".to_string(), fin as i64);
    Scenario {
        family: family.to_string(),
        seed,
        // one-way latency 0 and no jitter: the script's waits are the arrival times
        // (exact mode, some runs: the endpoint's socket is full now and then)
        net: {
            let mut net = NetCfg { seed: r.next(), latency_us: 0, ..Default::default() };
            if exact && family == "peer_sender_exact_refusals" {
                net.pending_p = *r.pick(&[0.05, 0.2, 0.4]);
            }
            net
        },
        nodes: vec![NodeCfg { ipv6, opts, env: gen_env(&mut r) }],
        connects,
        accepts,
        global: vec![],
        peer: Some(peer),
        attack: None,
        script_cap_ms: 120_000,
        settle_ms: 70_000,
        params,
    }
}

/// The peer is the receiver: the real endpoint sends (C05, C06, C18, C19).
pub fn peer_receiver(seed: u64, family: &str, variant: u8) -> Scenario {
    // variant: 0 generic, 1 no-loss-signal (never SACK, never dup: endpoint never enters recovery),
    //          2 retransmission discipline (withheld/dup/SACK/stale ACKs), 3 nagle, 4 buffer
    let mut r = Rng::new(seed ^ 0x4ECE ^ ((variant as u64) << 32));
    let (ipv6, role, isn, conn_id) = peer_base(&mut r);
    let probing = r.chance(0.5);
    let link = if probing { if r.chance(0.5) { None } else { Some(r.range(700, 3000) as usize) } } else { Some(if ipv6 { 1280 } else { 576 }) };
    let link_v = link.unwrap_or(1500);
    let mss = min_payload(link_v, ipv6);
    let mut opts = OptsCfg { link_mtu: link, ..Default::default() };
    opts.disable_nagle = match variant {
        3 => r.chance(0.5),
        _ => r.chance(0.3),
    };
    if variant == 4 || r.chance(0.5) {
        opts.tx_init = Some(r.log_range(16, 65536) as usize);
        if r.chance(0.7) {
            opts.tx_max = Some(r.log_range(16, 200_000) as usize);
        }
    }
    opts.max_retx = Some(r.range(2, 6) as usize);
    opts.inactivity_ms = Some(r.log_range(3000, 120_000));
    if r.chance(0.3) {
        opts.mtu_probe_retx = Some(r.below(3) as usize);
    }
    // retransmission family, "probe tail" shape: the stream is one or two ordinary segments plus
    // a final piece that is cut as a size probe (the newest, last queued segment), over a lossy
    // wire: a hole in front of an acknowledged probe, probes expiring while holes are repaired
    let probe_tail = variant == 2 && r.chance(0.15);
    if probe_tail {
        opts.link_mtu = if r.chance(0.7) { None } else { Some(r.range(1200, 3000) as usize) };
        opts.tx_init = None;
        opts.tx_max = None;
        if r.chance(0.6) {
            opts.mtu_probe_retx = Some(0);
        }
    }
    let link_v = opts.link_mtu.unwrap_or(1500);
    let mss = min_payload(link_v, ipv6);
    let total = if variant == 4 { r.log_range(1, 300_000) } else { r.log_range(1, 60_000) };
    let total = if probe_tail { r.range(1, 7) * mss as u64 + r.range(mss as u64 + 1, 2 * mss as u64) } else { total };
    // keep the number of segments per run in the low thousands (tiny rings make tiny segments)
    let seg_cap = (opts.tx_init().max(opts.tx_max())).min(mss).max(16) as u64;
    let total = total.min(1500 * seg_cap);
    // tiny rings degenerate into one-byte segments: keep the sequence space far from a full turn
    let total = if opts.tx_init().max(opts.tx_max()) < 2000 { total.min(20_000) } else { total };
    let mut w = if variant == 3 {
        // many small writes with pauses
        let mut v = vec![];
        let mut left = total.min(20_000);
        while left > 0 {
            let n = r.log_range(1, (3 * mss) as u64).min(left);
            v.push(WOp::Write { n, chunk: 65536 });
            left -= n;
            match r.below(4) {
                0 => v.push(WOp::Sleep(wait_ms(&mut r, true))),
                1 => v.push(WOp::Yield(1)),
                _ => {}
            }
        }
        v
    } else {
        gen_writes(&mut r, total, opts.tx_init(), mss)
    };
    // generic family, "late tail" shape: everything written so far ends in a size probe that is
    // still un-acknowledged (slow ACKs) when the application writes a little more and closes
    let late_tail = variant == 0 && r.chance(0.12);
    if late_tail {
        w = vec![WOp::Write { n: r.range(1, 4) * mss as u64 + r.range(mss as u64 + 1, 2 * mss as u64), chunk: 65536 }, WOp::Sleep(r.range(1, 60)), WOp::Write { n: r.log_range(1, 300), chunk: 65536 }];
    }
    match r.below(4) {
        _ if late_tail => w.push(WOp::Drop),
        0 => {
            w.push(WOp::Flush);
            w.push(WOp::Shutdown);
        }
        1 => w.push(WOp::Shutdown),
        2 => w.push(WOp::Drop),
        _ => w.push(WOp::Flush),
    }
    // buffer family, "impatient writer": a write call that stays blocked is abandoned after a
    // few milliseconds and the half is polled again from another task context
    if variant == 4 && r.chance(0.15) {
        let ms = *r.pick(&[1u64, 2, 5, 20, 60]);
        for op in w.iter_mut() {
            if let WOp::Write { n, chunk } = op {
                *op = WOp::WriteImpatient { n: *n, chunk: *chunk, ms };
            }
        }
    }
    // the peer's window behaviour
    let mut auto = AutoCfg { ack: AckMode::Immediate, sack: variant != 1 && r.chance(0.7), answer_fin: true, rx_model: None };
    auto.ack = match r.below(4) {
        0 => AckMode::Immediate,
        1 => AckMode::Delayed(*r.pick(&[1u64, 5, 20, 40, 100])),
        2 => AckMode::EveryN(r.range(1, 4) as u32),
        _ => AckMode::Immediate,
    };
    let wnd: u32 = match r.below(5) {
        0 => 1 << 20,
        1 => r.log_range(mss as u64, 20 * mss as u64) as u32,
        2 => r.log_range(1, 2 * mss as u64) as u32,
        _ => r.log_range(1000, 1 << 20) as u32,
    };
    // a window of a few bytes turns the whole stream into that many packets: bound the count
    let wnd = wnd.max((total / 15_000) as u32 + 1);
    if r.chance(0.3) && variant != 2 {
        auto.rx_model = Some(RxModel { buf: r.log_range(mss as u64, 40 * mss as u64) as u32, drain_per_ms: if r.chance(0.5) { 0 } else { r.log_range(1, 2000) as u32 } });
    }
    if probe_tail {
        // a plain, honest receiver: what it acknowledges is what the lossy wire let through
        auto.ack = AckMode::Immediate;
        auto.sack = true;
        auto.rx_model = None;
    }
    if late_tail {
        auto.ack = AckMode::Delayed(*r.pick(&[40u64, 100, 200]));
        auto.rx_model = None;
    }
    let wnd = if late_tail { 1 << 20 } else { wnd };
    let mut steps = vec![];
    let n_steps = if probe_tail { 0 } else { r.range(0, 25) };
    for _ in 0..n_steps {
        steps.push(PeerStep::Wait(wait_ms(&mut r, true).max(1) * r.range(1, 4)));
        let lossy_allowed = variant != 1;
        match r.below(12) {
            0 => steps.push(PeerStep::SetWnd(0)),
            1 => {
                steps.push(PeerStep::SetWnd(r.log_range(1, 1 << 20) as u32));
                steps.push(PeerStep::Ack { ack_delta: 0, wnd: None, sack: SackSpec::Auto });
            }
            2 => steps.push(PeerStep::Drain(r.log_range(1, 100_000) as u32)),
            3 => {
                steps.push(PeerStep::Drain(r.log_range(1, 100_000) as u32));
                steps.push(PeerStep::Ack { ack_delta: 0, wnd: None, sack: SackSpec::Auto });
            }
            4 if lossy_allowed => {
                // withhold ACKs for a while
                steps.push(PeerStep::SetAuto(AutoCfg { ack: AckMode::Manual, ..auto.clone() }));
                steps.push(PeerStep::Wait(r.log_range(50, 3000)));
                steps.push(PeerStep::SetAuto(auto.clone()));
                steps.push(PeerStep::Ack { ack_delta: 0, wnd: None, sack: SackSpec::Auto });
            }
            5 if lossy_allowed => {
                // duplicate ACKs
                for _ in 0..r.range(1, 5) {
                    steps.push(PeerStep::Ack { ack_delta: 0, wnd: None, sack: SackSpec::None });
                    if r.chance(0.5) {
                        steps.push(PeerStep::Wait(1));
                    }
                }
            }
            6 if lossy_allowed => {
                // stale ACK
                steps.push(PeerStep::Ack { ack_delta: -(r.range(1, 5) as i32), wnd: None, sack: SackSpec::None });
            }
            7 if lossy_allowed => {
                // SACK with explicit bits (claims about packets it may not have)
                let bits: Vec<bool> = (0..r.range(1, 40)).map(|_| r.chance(0.4)).collect();
                steps.push(PeerStep::Ack { ack_delta: 0, wnd: None, sack: SackSpec::Bits(bits) });
            }
            8 => steps.push(PeerStep::Ack { ack_delta: 0, wnd: Some(r.log_range(1, 1 << 20) as u32), sack: SackSpec::Auto }),
            9 if lossy_allowed && r.chance(0.2) => steps.push(PeerStep::Vanish),
            10 if lossy_allowed => {
                // reordering without loss: the newest one or two packets are reported
                // selectively (fewer than three: no loss signal) while the cumulative ACK stays one
                // packet behind, then everything is acknowledged
                let k = r.range(2, 3) as i32;
                steps.push(PeerStep::SetAuto(AutoCfg { ack: AckMode::Manual, ..auto.clone() }));
                steps.push(PeerStep::Wait(r.range(1, 60)));
                steps.push(PeerStep::Ack { ack_delta: -k, wnd: None, sack: SackSpec::Bits(vec![true; (k - 1) as usize]) });
                steps.push(PeerStep::Wait(r.range(1, 30)));
                steps.push(PeerStep::SetAuto(auto.clone()));
                steps.push(PeerStep::Ack { ack_delta: 0, wnd: None, sack: SackSpec::Auto });
            }
            _ => {}
        }
    }
    // buffer family, "piggyback" shape: the peer never sends a bare ACK; its acknowledgements ride
    // only on its own data packet, which it keeps retransmitting (the endpoint consumed it long
    // ago: every copy is a duplicate that carries a first-time acknowledgement number)
    let piggyback = variant == 4 && r.chance(0.12);
    if piggyback {
        auto.ack = AckMode::Manual;
        auto.rx_model = None;
        steps.clear();
        steps.push(PeerStep::SendPkt(0));
        for _ in 0..r.range(20, 150) {
            steps.push(PeerStep::Wait(r.log_range(1, 150)));
            steps.push(PeerStep::SendPkt(0));
        }
        steps.push(PeerStep::SetAuto(AutoCfg { ack: AckMode::Immediate, ..auto.clone() }));
        steps.push(PeerStep::Ack { ack_delta: 0, wnd: None, sack: SackSpec::Auto });
    }
    steps.push(PeerStep::Wait(200));
    let peer = PeerScript {
        role,
        isn,
        conn_id,
        wnd: if piggyback { wnd.max(4 * mss as u32) } else { wnd },
        auto,
        pkts: if piggyback { vec![r.range(1, mss as u64) as u16] } else if r.chance(0.3) { (0..r.range(1, 5)).map(|_| r.range(1, mss as u64) as u16).collect() } else { vec![] },
        steps,
        start_ms: 0,
        synack_delay_ms: r.range(0, 30),
    };
    // (late tail: the application lets go of both halves - that, not shutdown, is what closes a
    // connection whose ring is not empty)
    let reader = if late_tail && r.chance(0.7) { vec![ROp::Drop] } else { vec![ROp::Read { n: u64::MAX, buf: 4096, vectored: false }] };
    let side = Side { w, r: reader };
    let (connects, accepts) = match role {
        PeerRole::Connector => (vec![], vec![AcceptScript { node: 0, at_ms: 0, cancel_after_ms: None, side }]),
        PeerRole::Acceptor => (vec![ConnectScript { node: 0, to: 1, at_ms: 0, cancel_after_ms: None, side }], vec![]),
    };
    let mut params = std::collections::BTreeMap::new();
    params.insert("peer_variant".to_string(), variant as i64);
    let mut peer = peer;
    // the peer has data of its own (nagle family): it arrives at seeded points of
    // the script, in order, so that the endpoint owes acknowledgements (delayed, or immediate
    // after two packets) while its own small writes wait for the pipe to drain
    if !piggyback && !peer.pkts.is_empty() && variant == 3 {
        let mut pos: Vec<usize> = (0..peer.pkts.len()).map(|_| r.below(peer.steps.len() as u64 + 1) as usize).collect();
        pos.sort();
        for (i, at) in pos.into_iter().enumerate().rev() {
            peer.steps.insert(at.min(peer.steps.len()), PeerStep::SendPkt(i));
        }
    }
    // no-loss-signal family, "window on data" shape (own random stream, the other scenarios of
    // the family are unchanged): the peer's window updates - shrinking, closing, re-opening - ride
    // on copies of its own data packet, whose acknowledgement number often has not moved
    if variant == 1 && !piggyback {
        let mut r2 = Rng::new(seed ^ 0xDA7A_0F_57A7E);
        if r2.chance(0.2) {
            if peer.pkts.is_empty() {
                peer.pkts = vec![r2.range(1, mss as u64) as u16];
            }
            params.insert("window_on_data".to_string(), 1);
            let n = r2.range(2, 12);
            for _ in 0..n {
                let at = r2.below(peer.steps.len() as u64 + 1) as usize;
                let wnd = match r2.below(5) {
                    0 | 1 => 0,
                    2 => r2.range(1, mss as u64) as u32,
                    3 => r2.log_range(1, 1 << 20) as u32,
                    _ => peer.wnd,
                };
                let persist = r2.chance(0.5);
                peer.steps.insert(at, PeerStep::DataWnd { i: 0, wnd, persist });
                // a closed window is re-opened by a bare ACK a little later
                if wnd == 0 || r2.chance(0.3) {
                    let w = r2.log_range(mss as u64, 1 << 20) as u32;
                    peer.steps.insert(at + 1, PeerStep::Wait(r2.log_range(1, 400)));
                    peer.steps.insert(at + 2, PeerStep::Ack { ack_delta: 0, wnd: Some(w), sack: SackSpec::None });
                    if persist {
                        peer.steps.insert(at + 3, PeerStep::DataWnd { i: 0, wnd: w, persist: true });
                    }
                }
            }
        }
    }
    // A connector peer must send something after the SYN-ACK or the endpoint gives up: one ACK.
    peer.steps.insert(0, PeerStep::Ack { ack_delta: 0, wnd: None, sack: SackSpec::None });
    Scenario {
        family: family.to_string(),
        seed,
        net: {
            let mut net = NetCfg { seed: r.next(), latency_us: *r.pick(&[0u64, 0, 1000, 10_000, 40_000]), ..Default::default() };
            // retransmission family: real loss on the wire in most runs (the peer's ACKs and
            // SACKs then describe genuine holes; ACKs get lost too)
            if variant == 2 && (probe_tail || r.chance(0.6)) {
                net.drop_p = if probe_tail { *r.pick(&[0.1, 0.2, 0.3]) } else { *r.pick(&[0.01, 0.03, 0.08, 0.15]) };
                net.protect_syn = true;
            }
            // retransmission family: the socket's send buffer is full now and then, also at the
            // very moment a time-out wants to retransmit (the send is refused and repeated)
            if variant == 2 && !probe_tail && r.chance(0.25) {
                net.pending_p = *r.pick(&[0.05, 0.2, 0.5]);
            }
            net
        },
        nodes: vec![NodeCfg { ipv6, opts, env: gen_env(&mut r) }],
        connects,
        accepts,
        global: vec![],
        peer: Some(peer),
        attack: None,
        script_cap_ms: 200_000,
        settle_ms: 30_000,
        params,
    }
}

/// C17: short handshake/teardown scripts from every state: bounded seeded sequences of peer
/// packets (in and out of sequence, duplicated, late handshake retransmissions), application
/// actions and timer expiries (by waiting).
pub fn c17_teardown(seed: u64) -> Scenario {
    let mut r = Rng::new(seed ^ 0xC17);
    let (ipv6, role, isn, conn_id) = peer_base(&mut r);
    let link_v = 1500;
    let mss = min_payload(link_v, ipv6);
    let mut opts = OptsCfg::default();
    opts.max_retx = Some(r.range(2, 5) as usize);
    opts.inactivity_ms = Some(r.log_range(1500, 20_000));
    opts.dont_wait_lastack = r.chance(0.3);
    let n_pkts = r.range(0, 4) as usize;
    let pkts: Vec<u16> = (0..n_pkts).map(|_| r.range(1, mss as u64) as u16).collect();
    let silent_peer = role == PeerRole::Connector && r.chance(0.1);
    let mut auto = AutoCfg { ack: if r.chance(0.7) { AckMode::Immediate } else { AckMode::Manual }, sack: r.chance(0.5), answer_fin: r.chance(0.6), rx_model: None };
    let mut steps = vec![];
    if !silent_peer {
        if role == PeerRole::Connector && r.chance(0.9) {
            steps.push(PeerStep::Ack { ack_delta: 0, wnd: None, sack: SackSpec::None });
        }
        let mut next_pkt = 0usize;
        for _ in 0..r.range(0, 10) {
            match r.below(12) {
                0 | 1 => {
                    if next_pkt < n_pkts {
                        steps.push(PeerStep::SendPkt(next_pkt));
                        next_pkt += 1;
                    }
                }
                2 => {
                    if n_pkts > 0 {
                        steps.push(PeerStep::SendPkt(r.below(n_pkts as u64) as usize));
                    }
                }
                3 => steps.push(PeerStep::Fin { at: None }),
                4 => {
                    if n_pkts > 0 {
                        steps.push(PeerStep::Fin { at: Some(r.below(n_pkts as u64) as usize) })
                    }
                }
                5 => steps.push(PeerStep::Ack { ack_delta: r.range(0, 3) as i32 - 1, wnd: None, sack: SackSpec::Auto }),
                6 => steps.push(PeerStep::HandshakeDup),
                7 => {
                    if r.chance(0.4) {
                        steps.push(PeerStep::Reset)
                    }
                }
                8 => {
                    auto.answer_fin = !auto.answer_fin;
                    steps.push(PeerStep::SetAuto(auto.clone()));
                }
                9 => {
                    if r.chance(0.2) {
                        steps.push(PeerStep::Vanish)
                    }
                }
                10 => steps.push(PeerStep::RogueData { rel: n_pkts as i32 + 2 + r.below(5) as i32, len: r.range(1, 600) as u16 }),
                _ => {}
            }
            steps.push(PeerStep::Wait(*r.pick(&[0u64, 1, 5, 40, 200, 250, 1100, 3000])));
        }
    } else {
        auto.ack = AckMode::Manual;
        auto.answer_fin = false;
    }
    steps.push(PeerStep::Wait(100));
    let mut wops = vec![];
    if role == PeerRole::Acceptor || r.chance(0.6) {
        wops.push(WOp::Write { n: r.log_range(1, 3000), chunk: 4096 });
    }
    for _ in 0..r.range(0, 2) {
        wops.push(WOp::Sleep(*r.pick(&[1u64, 10, 100, 500, 1500, 4000])));
        if r.chance(0.5) {
            wops.push(WOp::Write { n: r.log_range(1, 2000), chunk: 4096 });
        }
    }
    let mut rops = vec![ROp::Read { n: u64::MAX, buf: 4096, vectored: false }];
    match r.below(5) {
        0 => wops.push(WOp::Shutdown),
        1 => {
            wops.push(WOp::Drop);
            rops = vec![ROp::Sleep(r.log_range(1, 3000)), ROp::Drop];
        }
        2 => {
            wops.push(WOp::Flush);
            wops.push(WOp::Shutdown);
        }
        3 => {
            wops.push(WOp::Shutdown);
            wops.push(WOp::Drop);
        }
        _ => {}
    }
    let mut peer = PeerScript { role, isn, conn_id, wnd: 1 << 20, auto, pkts, steps, start_ms: 0, synack_delay_ms: r.range(0, 300) };
    let mut side = Side { w: wops, r: rops };
    // "close during timeout recovery": the window is opened by a first, acknowledged flight; a
    // second flight of several segments goes unanswered until the retransmission timer has
    // fired; the application closes around that time; then the peer acknowledges the flight
    // piece by piece (everything had arrived, only its answers were late)
    if r.chance(0.1) {
        // (a flight that fits the window the first one opened: everything is on the wire once)
        let n2 = r.range(4, 5);
        peer.auto = AutoCfg { ack: AckMode::Immediate, sack: r.chance(0.5), answer_fin: true, rx_model: None };
        peer.synack_delay_ms = r.range(0, 20);
        peer.pkts = vec![];
        let quiet = AutoCfg { ack: AckMode::Manual, ..peer.auto.clone() };
        let mut st = vec![];
        if role == PeerRole::Connector {
            st.push(PeerStep::Ack { ack_delta: 0, wnd: None, sack: SackSpec::None });
        }
        st.push(PeerStep::Wait(60));
        st.push(PeerStep::SetAuto(quiet));
        st.push(PeerStep::Wait(r.range(400, 1000)));
        let mut back = n2 as i32 - 1;
        while back > 0 {
            st.push(PeerStep::Ack { ack_delta: -back, wnd: None, sack: SackSpec::None });
            st.push(PeerStep::Wait(r.range(5, 120)));
            back -= r.range(1, 2) as i32;
        }
        st.push(PeerStep::SetAuto(peer.auto.clone()));
        st.push(PeerStep::Ack { ack_delta: 0, wnd: None, sack: SackSpec::Auto });
        st.push(PeerStep::Wait(300));
        peer.steps = st;
        let mut w = vec![WOp::Write { n: 3 * mss as u64, chunk: 65536 }, WOp::Sleep(100), WOp::Write { n: n2 * mss as u64 - r.below(100), chunk: 65536 }, WOp::Sleep(r.range(120, 500))];
        let rd = match r.below(3) {
            0 => {
                w.push(WOp::Shutdown);
                vec![ROp::Read { n: u64::MAX, buf: 4096, vectored: false }]
            }
            _ => {
                w.push(WOp::Drop);
                vec![ROp::Sleep(350), ROp::Drop]
            }
        };
        side = Side { w, r: rd };
        opts.max_retx = Some(8);
        opts.inactivity_ms = Some(20_000);
        opts.disable_nagle = r.chance(0.5);
        // (no path-MTU probing: the flight is a known number of equal segments)
        opts.link_mtu = Some(if ipv6 { 1280 } else { 576 });
    }
    let (connects, accepts) = match role {
        PeerRole::Connector => (vec![], vec![AcceptScript { node: 0, at_ms: 0, cancel_after_ms: None, side }]),
        PeerRole::Acceptor => (vec![ConnectScript { node: 0, to: 1, at_ms: 0, cancel_after_ms: None, side }], vec![]),
    };
    Scenario {
        family: "c17_teardown".to_string(),
        seed,
        net: NetCfg { seed: r.next(), latency_us: *r.pick(&[0u64, 0, 1000, 20_000]), ..Default::default() },
        nodes: vec![NodeCfg { ipv6, opts, env: gen_env(&mut r) }],
        connects,
        accepts,
        global: vec![],
        peer: Some(peer),
        attack: None,
        script_cap_ms: 60_000,
        settle_ms: 400_000,
        params: Default::default(),
    }
}

// ------------------------------------------------------------------------------------------
// C09: metamorphic ISN / connection-id invariance. The base run starts at small numbers; the
// params carry the numbers of the shifted run (near the 16-bit wrap, at the sign boundary, ...).

pub fn c09_isn(seed: u64) -> Scenario {
    let mut r = Rng::new(seed ^ 0xC09);
    let mut p = Profile::full(if r.chance(0.2) { 400_000 } else { 60_000 });
    p.suspend = false;
    p.cuts = r.chance(0.3);
    let mut sc = duplex(seed, "c09_isn", &p);
    // base: small numbers, far from any wrap for the length of the transfer
    sc.nodes[0].env.forced = vec![r.range(1, 2000) as u16, r.range(1, 2000) as u16];
    sc.nodes[1].env.forced = vec![r.range(1, 2000) as u16, r.range(1, 2000) as u16];
    // shifted: each number independently
    let pick = |r: &mut Rng, horizon: u64| -> u16 {
        match r.below(8) {
            0 => 65535,
            1 => 0,
            2 => 32767,
            3 => 32768,
            4 => (65536 - r.log_range(1, horizon.max(2))) as u16,
            5 => (32768 - r.log_range(1, horizon.max(2)) as i64) as u16,
            6 => (65536 - r.range(1, 64)) as u16,
            _ => r.next() as u16,
        }
    };
    // number of packets a side may send: bytes / smallest segment, plus control packets
    let horizon = 1500;
    sc.params.insert("v_cid_a".into(), pick(&mut r, 4) as i64);
    sc.params.insert("v_isn_a".into(), pick(&mut r, horizon) as i64);
    sc.params.insert("v_cid_b".into(), pick(&mut r, 4) as i64);
    sc.params.insert("v_isn_b".into(), pick(&mut r, horizon) as i64);
    sc
}

/// C09, wide-window variant: loss-free, small segments, long fat pipe, large buffers, so that
/// more than a thousand packets are in flight when the sequence numbers wrap ("every distance
/// the configured windows allow").
pub fn c09_wide(seed: u64) -> Scenario {
    let mut r = Rng::new(seed ^ 0xC09_1DE);
    let ipv6 = false;
    let link = r.range(60, 140) as usize; // 12..92 bytes of payload per packet
    let mss = max_payload(link, ipv6) as u64;
    let pkts = r.range(2500, 9000);
    let total = pkts * mss;
    let mk = |link: usize| OptsCfg {
        link_mtu: Some(link),
        rx_buf: Some(1 << 20),
        tx_init: Some(1 << 20),
        tx_max: Some(1 << 20),
        disable_nagle: false,
        inactivity_ms: Some(60_000),
        max_retx: Some(5),
        ..Default::default()
    };
    let net = NetCfg { seed: r.next(), latency_us: r.range(40, 400) * 1000, ..Default::default() };
    let wa = vec![WOp::Write { n: total, chunk: r.range(1000, 70_000) as usize }, WOp::Flush, WOp::WaitRead(8), WOp::Shutdown];
    let wb = vec![WOp::Write { n: 8, chunk: 8 }, WOp::WaitRead(total), WOp::Shutdown];
    let rd = vec![ROp::Read { n: u64::MAX, buf: 65536, vectored: false }];
    let mut sc = Scenario {
        family: "c09_wide".into(),
        seed,
        net,
        nodes: vec![
            NodeCfg { ipv6, opts: mk(link), env: EnvCfg { seed: r.next(), forced: vec![r.range(1, 2000) as u16, r.range(1, 2000) as u16], now_jitter_us: 0 } },
            NodeCfg { ipv6, opts: mk(link), env: EnvCfg { seed: r.next(), forced: vec![r.range(1, 2000) as u16, r.range(1, 2000) as u16], now_jitter_us: 0 } },
        ],
        connects: vec![ConnectScript { node: 0, to: 1, at_ms: 0, cancel_after_ms: None, side: Side { w: wa, r: rd.clone() } }],
        accepts: vec![AcceptScript { node: 1, at_ms: 0, cancel_after_ms: None, side: Side { w: wb, r: rd } }],
        global: vec![],
        peer: None,
        attack: None,
        script_cap_ms: 600_000,
        settle_ms: 2_000,
        params: Default::default(),
    };
    // the connector's numbers wrap somewhere inside the transfer
    sc.params.insert("v_cid_a".into(), r.range(0, 65535) as i64);
    sc.params.insert("v_isn_a".into(), (65536 - r.range(1, pkts)) as u16 as i64);
    sc.params.insert("v_cid_b".into(), r.range(0, 65535) as i64);
    sc.params.insert("v_isn_b".into(), r.range(0, 65535) as i64);
    sc
}

// ------------------------------------------------------------------------------------------
// C12: many simultaneous connections on few sockets, in both directions, with colliding
// connection-id counters and small connection limits.

pub fn c12_many(seed: u64) -> Scenario {
    let mut r = Rng::new(seed ^ 0xC12);
    let ipv6 = r.chance(0.2);
    let n_nodes = r.range(2, 4) as usize;
    let fault_free = r.chance(0.5);
    let mut nodes = vec![];
    // the same starting connection id on every socket makes ids of opposite directions meet
    let same_cid = r.chance(0.5);
    let cid0 = *r.pick(&[0u16, 1, 100, 65534, 65535, 32767]);
    for _ in 0..n_nodes {
        let opts = OptsCfg {
            max_live: if r.chance(0.5) { Some(*r.pick(&[1usize, 2, 3, 4, 6, 10])) } else { None },
            inactivity_ms: Some(r.range(8_000, 20_000)),
            link_mtu: if r.chance(0.3) { Some(r.range(300, 1500) as usize) } else { None },
            disable_nagle: r.chance(0.2),
            ..Default::default()
        };
        let mut env = EnvCfg { seed: r.next(), forced: vec![], now_jitter_us: 0 };
        if same_cid {
            env.forced = vec![cid0];
        } else if r.chance(0.3) {
            env.forced = vec![cid0.wrapping_add(r.range(0, 3) as u16)];
        }
        nodes.push(NodeCfg { ipv6, opts, env });
    }
    let k = r.log_range(2, 28) as usize;
    let b_acc: u64 = if r.chance(0.2) { 0 } else { r.log_range(1, 20_000) };
    let clusters: Vec<u64> = (0..r.range(1, 4)).map(|_| r.log_range(1, 4000)).collect();
    let mut connects = vec![];
    let mut per_node = vec![0usize; n_nodes];
    for _ in 0..k {
        let node = r.below(n_nodes as u64) as usize;
        let mut to = r.below(n_nodes as u64 - 1) as usize;
        if to >= node {
            to += 1;
        }
        per_node[to] += 1;
        let at_ms = if r.chance(0.7) { *r.pick(&clusters) + r.below(3) } else { r.range(0, 5000) };
        let n = 8 + if r.chance(0.2) { 0 } else { r.log_range(1, 40_000) };
        let w = vec![WOp::Write { n, chunk: r.log_range(8, 16_384) as usize }, WOp::Flush, WOp::WaitRead(b_acc), WOp::Shutdown];
        let rd = vec![ROp::Read { n: u64::MAX, buf: r.log_range(64, 16_384) as usize, vectored: r.chance(0.2) }];
        connects.push(ConnectScript { node, to, at_ms, cancel_after_ms: None, side: Side { w, r: rd } });
    }
    let mut accepts = vec![];
    // some runs: the applications run accept under a time-out (the usual accept loop): abandoned
    // accept calls sit in front of live ones when a request arrives
    let abandon = r.chance(0.3);
    let mut accept_cancels = 0i64;
    for (node, cnt) in per_node.iter().enumerate() {
        let n_acc = match r.below(6) {
            0 => cnt.saturating_sub(1),
            1 => cnt + 1,
            _ => *cnt,
        };
        for _ in 0..n_acc {
            let at_ms = if r.chance(0.8) { r.range(0, 50) } else { r.range(0, 6000) };
            let mut w = vec![];
            if b_acc > 0 {
                w.push(WOp::Write { n: b_acc, chunk: r.log_range(8, 16_384) as usize });
            }
            w.push(WOp::WaitRead(u64::MAX));
            w.push(WOp::Shutdown);
            let rd = vec![ROp::Read { n: u64::MAX, buf: r.log_range(64, 16_384) as usize, vectored: r.chance(0.2) }];
            accepts.push(AcceptScript { node, at_ms, cancel_after_ms: None, side: Side { w: w.clone(), r: rd.clone() } });
            if abandon && r.chance(0.3) {
                // an extra call that gives up early, queued at about the same time
                let at = if r.chance(0.7) { at_ms.saturating_sub(r.range(0, 3)) } else { r.range(0, 50) };
                accept_cancels += 1;
                accepts.push(AcceptScript { node, at_ms: at, cancel_after_ms: Some(r.range(0, 30)), side: Side { w, r: rd } });
            }
        }
    }
    let mut net = NetCfg { seed: r.next(), latency_us: pick_latency_us(&mut r).min(80_000), ..Default::default() };
    if !fault_free {
        net.jitter_us = r.range(0, 20_000);
        net.drop_p = *r.pick(&[0.0, 0.005, 0.02, 0.05]);
        net.dup_p = *r.pick(&[0.0, 0.02, 0.1]);
        net.protect_syn = r.chance(0.7);
    }
    let mut params = std::collections::BTreeMap::new();
    params.insert("fault_free".to_string(), fault_free as i64);
    params.insert("accept_cancels".to_string(), accept_cancels);
    params.insert("acceptor_bytes".to_string(), b_acc as i64);
    Scenario {
        family: "c12_many".to_string(),
        seed,
        net,
        nodes,
        connects,
        accepts,
        global: vec![],
        peer: None,
        attack: None,
        script_cap_ms: 90_000,
        settle_ms: 3_000,
        params,
    }
}

// ------------------------------------------------------------------------------------------
// C13: connect/accept pairing, order, backlog. One listener (node 0), many connector sockets
// (at most 4 connects may be pending per remote address on one socket, so filling the
// listener's backlog of 32 takes many sockets).

pub fn c13_pairing(seed: u64) -> Scenario {
    let mut r = Rng::new(seed ^ 0xC13);
    let ipv6 = r.chance(0.15);
    let big = r.chance(0.35); // try to overflow the backlog
    let n_conn_nodes = if big { r.range(9, 14) as usize } else { r.range(1, 5) as usize };
    let loss_free = r.chance(0.7);
    let mut nodes = vec![];
    let l_opts = OptsCfg {
        max_live: if r.chance(0.3) { Some(*r.pick(&[1usize, 2, 3, 5, 8])) } else { None },
        inactivity_ms: Some(r.range(8_000, 20_000)),
        ..Default::default()
    };
    nodes.push(NodeCfg { ipv6, opts: l_opts, env: EnvCfg { seed: r.next(), forced: vec![], now_jitter_us: 0 } });
    for _ in 0..n_conn_nodes {
        nodes.push(NodeCfg { ipv6, opts: OptsCfg { inactivity_ms: Some(r.range(8_000, 20_000)), ..Default::default() }, env: EnvCfg { seed: r.next(), forced: vec![], now_jitter_us: 0 } });
    }
    let b_acc: u64 = if r.chance(0.3) { 0 } else { r.log_range(1, 3_000) };
    let mut connects = vec![];
    let mut accepts = vec![];
    // phases: accepts may come first (waiting acceptors) or late (SYNs pile up in the backlog)
    let accepts_late = r.chance(0.6);
    let t_conn0 = if accepts_late { r.range(0, 50) } else { r.range(200, 1000) };
    let t_acc0 = if accepts_late { r.range(1500, 4000) } else { r.range(0, 100) };
    let k = if big { r.range(30, 48) as usize } else { r.log_range(1, 16) as usize };
    let mut connect_cancels = 0;
    for i in 0..k {
        let node = 1 + if big { i % n_conn_nodes } else { r.below(n_conn_nodes as u64) as usize };
        // distinct arrival instants most of the time (ordering is judged on arrival order)
        let at_ms = t_conn0 + if r.chance(0.8) { i as u64 * r.range(1, 5) } else { r.range(0, 400) };
        let n = 8 + r.log_range(1, 2_000);
        let cancel_after_ms = if r.chance(0.12) {
            connect_cancels += 1;
            Some(r.log_range(1, 3000))
        } else {
            None
        };
        let w = vec![WOp::Write { n, chunk: 4096 }, WOp::Flush, WOp::WaitRead(b_acc), WOp::Shutdown];
        let rd = vec![ROp::Read { n: u64::MAX, buf: 4096, vectored: false }];
        connects.push(ConnectScript { node, to: 0, at_ms, cancel_after_ms, side: Side { w, r: rd } });
    }
    // a second wave of connects after cancellations / closes freed slots
    if r.chance(0.5) {
        let extra = r.range(1, 6) as usize;
        for _ in 0..extra {
            let node = 1 + r.below(n_conn_nodes as u64) as usize;
            let at_ms = r.range(5_000, 9_000);
            let n = 8 + r.log_range(1, 2_000);
            let w = vec![WOp::Write { n, chunk: 4096 }, WOp::Flush, WOp::WaitRead(b_acc), WOp::Shutdown];
            let rd = vec![ROp::Read { n: u64::MAX, buf: 4096, vectored: false }];
            connects.push(ConnectScript { node, to: 0, at_ms, cancel_after_ms: None, side: Side { w, r: rd } });
        }
    }
    let n_acc = match r.below(5) {
        0 => connects.len().saturating_sub(r.range(1, 3) as usize),
        1 => connects.len() + r.range(1, 3) as usize,
        _ => connects.len(),
    };
    let mut accept_cancels = 0;
    for j in 0..n_acc {
        let at_ms = if r.chance(0.15) { r.range(5_000, 10_000) } else { t_acc0 + j as u64 * r.range(0, 40) };
        let cancel_after_ms = if r.chance(0.1) {
            accept_cancels += 1;
            Some(r.log_range(1, 3000))
        } else {
            None
        };
        let mut w = vec![];
        if b_acc > 0 {
            w.push(WOp::Write { n: b_acc, chunk: 4096 });
        }
        w.push(WOp::WaitRead(u64::MAX));
        w.push(WOp::Shutdown);
        let rd = vec![ROp::Read { n: u64::MAX, buf: 4096, vectored: false }];
        accepts.push(AcceptScript { node: 0, at_ms, cancel_after_ms, side: Side { w, r: rd } });
    }
    let mut net = NetCfg { seed: r.next(), latency_us: *r.pick(&[0u64, 1_000, 10_000, 40_000]), ..Default::default() };
    if !loss_free {
        net.jitter_us = r.range(0, 10_000);
        net.drop_p = *r.pick(&[0.0, 0.01, 0.03]);
        net.dup_p = *r.pick(&[0.0, 0.05, 0.2]);
        // duplication and reordering only: nothing is lost, every request arrives (some twice)
        if r.chance(0.4) {
            net.drop_p = 0.0;
            net.dup_p = *r.pick(&[0.05, 0.2, 0.5]);
        }
    }
    // some runs: an abandoned call loses the race at its deadline (the application's select!
    // looks at the deadline first), and some abandoned accept calls give up at the very instant
    // a request arrives (loss-free runs: arrival = connect time + latency)
    let cancel_wins_ties = r.chance(0.5);
    if cancel_wins_ties && loss_free && !connects.is_empty() {
        let lat_ms = net.latency_us / 1000;
        for a in accepts.iter_mut() {
            if a.cancel_after_ms.is_some() || r.chance(0.08) {
                let c = &connects[r.below(connects.len() as u64) as usize];
                let arrival = c.at_ms + lat_ms;
                if arrival > a.at_ms {
                    if a.cancel_after_ms.is_none() {
                        accept_cancels += 1;
                    }
                    a.cancel_after_ms = Some(arrival - a.at_ms);
                }
            }
        }
    }
    let mut params = std::collections::BTreeMap::new();
    params.insert("cancel_wins_ties".to_string(), cancel_wins_ties as i64);
    params.insert("loss_free".to_string(), loss_free as i64);
    params.insert("drop_free".to_string(), (net.drop_p == 0.0) as i64);
    params.insert("acceptor_bytes".to_string(), b_acc as i64);
    params.insert("accept_cancels".to_string(), accept_cancels);
    params.insert("connect_cancels".to_string(), connect_cancels);
    let mut sc = Scenario {
        family: "c13_pairing".to_string(),
        seed,
        net,
        nodes,
        connects,
        accepts,
        global: vec![],
        peer: None,
        attack: None,
        script_cap_ms: 60_000,
        settle_ms: 3_000,
        params,
    };
    let hsh = sc.app_scripts_hash();
    sc.params.insert("app_scripts_hash".to_string(), hsh);
    sc
}

// ------------------------------------------------------------------------------------------
// C10: hostile datagrams. Target = node 0; node 1 = honest peer with healthy connections;
// attacker = raw endpoint at index 2 (own address, spoofed addresses, own connection).

pub fn c10_hostile(seed: u64) -> Scenario {
    use crate::attack::*;
    let mut r = Rng::new(seed ^ 0xC10);
    let ipv6 = r.chance(0.15);
    let t_opts = OptsCfg {
        rx_buf: if r.chance(0.4) { Some(r.log_range(2_000, 200_000) as usize) } else { None },
        tx_init: if r.chance(0.3) { Some(r.log_range(512, 65_536) as usize) } else { None },
        inactivity_ms: Some(r.range(4_000, 12_000)),
        disable_nagle: r.chance(0.2),
        ..Default::default()
    };
    let p_opts = OptsCfg { inactivity_ms: Some(r.range(4_000, 12_000)), ..Default::default() };
    let b_acc: u64 = if r.chance(0.2) { 0 } else { r.log_range(1, 30_000) };
    let healthy = |r: &mut Rng, node: usize, to: usize, at_ms: u64| {
        let n = 8 + r.log_range(1, 60_000);
        let w = vec![WOp::Write { n, chunk: r.log_range(8, 16_384) as usize }, WOp::Flush, WOp::WaitRead(b_acc), WOp::Shutdown];
        let rd = vec![ROp::Read { n: u64::MAX, buf: r.log_range(64, 16_384) as usize, vectored: false }];
        ConnectScript { node, to, at_ms, cancel_after_ms: None, side: Side { w, r: rd } }
    };
    let t_attack_end = r.log_range(200, 4000);
    let mut connects = vec![];
    // k0: a transfer that runs while the attack goes on
    let (a, b) = if r.chance(0.6) { (1, 0) } else { (0, 1) };
    let t0 = r.range(0, 60);
    connects.push(healthy(&mut r, a, b, t0));
    // k1: the socket's connect/accept service after the attack
    let (a, b) = if r.chance(0.5) { (1, 0) } else { (0, 1) };
    let t1 = t_attack_end + r.range(500, 2500);
    connects.push(healthy(&mut r, a, b, t1));
    // k2: the attacker's own connection (only its stream key is used)
    connects.push(ConnectScript { node: 2, to: 0, at_ms: 0, cancel_after_ms: None, side: Side::default() });

    let own = if r.chance(0.65) {
        Some(OwnConn { cid: *r.pick(&[0u16, 1, 7, 65534, 65535, 12345]), isn: *r.pick(&[0u16, 1, 65535, 65000, 32767, 40000]), connect_k: 2, at_ms: r.range(0, 100) })
    } else {
        None
    };
    let deltas: [i32; 13] = [0, 1, -1, 2, -2, 3, 100, -100, 1000, -1000, 20000, -20000, 32768];
    let num = |r: &mut Rng| match r.below(8) {
        0 => NumSel::Abs(0),
        1 => NumSel::Abs(65535),
        2 => NumSel::Abs(r.next() as u16),
        3..=5 => NumSel::Mine(*r.pick(&deltas)),
        _ => NumSel::Theirs(*r.pick(&deltas)),
    };
    let n_steps = r.log_range(5, 300) as usize;
    let mut steps = vec![];
    let mut any_own_data = false;
    let mut syn_budget = 10u32;
    for _ in 0..n_steps {
        let at_ms = r.range(0, t_attack_end);
        let mut src = match r.below(20) {
            0..=9 => Src::Own,
            10..=16 => Src::Spoof(1),
            _ => Src::Nowhere(r.below(5) as u16),
        };
        let kind = match r.below(20) {
            0..=3 => Kind::Garbage { len: if r.chance(0.3) { r.range(0, 25) as usize } else { r.log_range(1, 1400) as usize } },
            4 if syn_budget > 0 => {
                syn_budget -= 1;
                Kind::Syn { cid: r.next() as u16, seq: r.next() as u16 }
            }
            5..=7 if own.is_some() => {
                any_own_data = true;
                Kind::ValidData { len: r.log_range(1, 1000) as usize }
            }
            8 if own.is_some() => Kind::ValidAck,
            9 if own.is_some() => {
                // the target's reassembly queue has (receive buffer / initial segment size) slots
                any_own_data = true;
                let cap = (t_opts.rx_buf() / min_payload(t_opts.link_mtu(), ipv6)).max(1) as i64;
                let in_order = r.range(1, 4) as usize;
                let ahead = (cap - 1 - r.below(in_order as u64 + 2) as i64 + r.below(2) as i64).max(1) as u16;
                Kind::EdgeData { in_order, ahead }
            }
            10 if own.is_some() => {
                src = Src::Own;
                // a very late (or made-up) acknowledgement on the attacker's own connection: well
                // formed, with a selective-ACK bitmap, its number far behind what the target has
                // in flight (around and beyond the reach of a 64-bit bitmap)
                let behind = *r.pick(&[1i32, 2, 3, 30, 62, 63, 64, 65, 66, 67, 68, 70, 100, 1000, 20000, 32000]);
                let len = *r.pick(&[4usize, 4, 8, 8, 32]);
                let d: Vec<u8> = (0..len).map(|_| if r.chance(0.3) { 0xFF } else { r.next() as u8 }).collect();
                Kind::Header { typ: *r.pick(&[2u8, 2, 2, 0, 1]), ver: 1, cid: CidSel::Own(0), seq: NumSel::Mine(0), ack: NumSel::Theirs(-behind), wnd: 1 << 20, ext: ExtSpec::Sack(d), payload: 0, truncate_to: None }
            }
            _ => {
                let mut typ = if r.chance(0.9) { r.below(5) as u8 } else { r.range(5, 15) as u8 };
                let ver = if r.chance(0.9) { 1 } else { *r.pick(&[0u8, 2, 15]) };
                // every well-formed SYN takes an accept call (or a backlog slot) of the target:
                // a SYN flood is not what this family is about
                if typ == 4 && ver == 1 {
                    if syn_budget == 0 {
                        typ = 2;
                    } else {
                        syn_budget -= 1;
                    }
                }
                let spoof = matches!(src, Src::Spoof(_));
                let cid = match r.below(10) {
                    0..=4 if own.is_some() && !spoof => CidSel::Own(*r.pick(&[0, 0, 0, 1, -1, 2, -2])),
                    // (connection ids between one address pair are handed out in steps of two:
                    // from the peer's spoofed address an even distance names ANOTHER honest
                    // connection exactly, which is a direct attack like distance 0)
                    0..=5 if spoof => CidSel::Victim(*r.pick(&[1, -1, 3, -3, 0, 5])),
                    0..=5 => CidSel::Victim(*r.pick(&[1, -1, 2, -2, 0, 3])),
                    _ => CidSel::Abs(r.next() as u16),
                };
                // a spoofed SYN whose id sits next to the victim's takes the table key of the
                // honest peer's NEXT connection (ids are handed out in steps of two): that is an
                // attack on that connection itself, not cross-contamination
                let cid = if spoof && typ == 4 && matches!(cid, CidSel::Victim(_)) { CidSel::Abs(r.next() as u16) } else { cid };
                let ext = match r.below(10) {
                    0..=4 => ExtSpec::None,
                    5..=7 => {
                        let len = *r.pick(&[0usize, 1, 3, 4, 8, 32, 36, 64, 128, 255]);
                        let fill = *r.pick(&[0u8, 0xFF, 0xAA, 0x01]);
                        let mut d = vec![fill; len];
                        if r.chance(0.5) {
                            for x in d.iter_mut() {
                                *x = r.next() as u8;
                            }
                        }
                        ExtSpec::Sack(d)
                    }
                    8 => ExtSpec::Other { id: r.range(2, 255) as u8, data: vec![0u8; r.below(40) as usize] },
                    _ => ExtSpec::Raw { first: r.range(1, 255) as u8, bytes: (0..r.below(6)).map(|_| r.next() as u8).collect() },
                };
                let payload = if typ == 0 || r.chance(0.1) { if r.chance(0.2) { 0 } else { r.log_range(1, 1400) as usize } } else { 0 };
                Kind::Header {
                    typ,
                    ver,
                    cid,
                    seq: num(&mut r),
                    ack: num(&mut r),
                    wnd: *r.pick(&[0u32, 1, 100, 65535, 1 << 20, u32::MAX]),
                    ext,
                    payload,
                    truncate_to: if r.chance(0.07) { Some(r.below(30) as usize) } else { None },
                }
            }
        };
        steps.push(AttackStep { at_ms, src, kind });
    }
    // the own connection opens with its token so that the target's application keeps it
    // ("eager": the token rides right behind the SYN, before the SYN-ACK can have arrived)
    let eager = r.chance(0.3);
    if own.is_some() && (any_own_data || eager) {
        let after = if eager { 0 } else { r.range(30, 120) };
        steps.push(AttackStep { at_ms: own.as_ref().unwrap().at_ms + after, src: Src::Own, kind: Kind::ValidData { len: 8 + r.below(200) as usize } });
    }
    // while the target's own connect to its peer is waiting for the SYN-ACK, a SYN arrives from
    // the peer's address whose id is one below the connect's: the connection it asks for would
    // be received on the connect's id. (The target must treat it as a clash and go on serving.)
    if connects[0].node == 0 && r.chance(0.5) {
        let lat_ms = 20;
        for _ in 0..r.range(1, 3) {
            steps.push(AttackStep {
                at_ms: connects[0].at_ms + r.range(0, 2 * lat_ms + 1),
                src: Src::Spoof(1),
                kind: Kind::Header { typ: 4, ver: 1, cid: CidSel::Victim(-1), seq: NumSel::Abs(r.next() as u16), ack: NumSel::Abs(0), wnd: 0, ext: ExtSpec::None, payload: 0, truncate_to: None },
            });
        }
    }
    // the attacker's SYN arrives twice before the target's application calls accept (both
    // copies wait in the backlog): the accept calls of the target come late in these runs
    let late_accepts = own.is_some() && r.chance(0.25);
    if late_accepts {
        let o = own.as_ref().unwrap();
        for _ in 0..r.range(1, 2) {
            steps.push(AttackStep { at_ms: o.at_ms + r.below(2), src: Src::Own, kind: Kind::Syn { cid: o.cid, seq: o.isn } });
        }
    }
    let late_from = own.as_ref().map(|o| o.at_ms).unwrap_or(0);
    let attack = AttackScript { seed: r.next(), idx: 2, target: 0, own, steps };
    let mut accepts = vec![];
    let mk_acc = |r: &mut Rng, node: usize, at_ms: u64| {
        let mut w = vec![];
        if b_acc > 0 {
            w.push(WOp::Write { n: b_acc, chunk: r.log_range(8, 16_384) as usize });
        }
        w.push(WOp::WaitRead(u64::MAX));
        w.push(WOp::Shutdown);
        AcceptScript { node, at_ms, cancel_after_ms: None, side: Side { w, r: vec![ROp::Read { n: u64::MAX, buf: 4096, vectored: false }] } }
    };
    let to0 = connects.iter().take(2).filter(|c| c.to == 0).count() + attack.syn_count() + 2;
    for _ in 0..to0 {
        let t = if late_accepts { late_from + r.range(50, 400) } else { r.range(0, 5) };
        accepts.push(mk_acc(&mut r, 0, t));
    }
    let to1 = connects.iter().take(2).filter(|c| c.to == 1).count() + 1;
    for _ in 0..to1 {
        let t = r.range(0, 5);
        accepts.push(mk_acc(&mut r, 1, t));
    }
    let mut net = NetCfg { seed: r.next(), latency_us: *r.pick(&[0u64, 1_000, 5_000, 20_000]), ..Default::default() };
    // the sockets' send buffers are full now and then (a send is refused and retried)
    if r.chance(0.3) {
        net.pending_p = *r.pick(&[0.02, 0.1, 0.3]);
    }
    let mut params = std::collections::BTreeMap::new();
    params.insert("direct_attack".to_string(), attack.has_direct_attack() as i64);
    params.insert("acceptor_bytes".to_string(), b_acc as i64);
    let mut sc = Scenario {
        family: "c10_hostile".to_string(),
        seed,
        net,
        nodes: vec![NodeCfg { ipv6, opts: t_opts, env: gen_env(&mut r) }, NodeCfg { ipv6, opts: p_opts, env: gen_env(&mut r) }],
        connects,
        accepts,
        global: vec![],
        peer: None,
        attack: Some(attack),
        script_cap_ms: 40_000,
        settle_ms: 3_000,
        params,
    };
    let hsh = sc.app_scripts_hash();
    sc.params.insert("app_scripts_hash".to_string(), hsh);
    sc
}
