//! Scenario generators: (family, seed) -> Scenario. Swarm style: every run varies sizes,
//! workload mix, configuration knobs and the enabled fault kinds.
use crate::{
    env::EnvCfg,
    net::{Cut, CutDir, NetCfg},
    scenario::*,
    util::Rng,
};

/// Knobs that restrict the generic duplex generator for a family.
#[derive(Clone, Debug)]
pub struct Profile {
    pub max_bytes: u64,
    pub tiny_mss: bool,
    pub faults: bool,
    pub blackhole: bool,
    pub emsgsize: bool,
    pub backpressure: bool,
    pub stale: bool,
    pub cuts: bool,
    pub asym_mtu: bool,
    pub small_rx: bool,
    pub small_tx: bool,
    pub both_dirs: bool,
    pub slow_reader: bool,
    pub end_mix: bool,
    pub suspend: bool,
}

impl Profile {
    pub fn full(max_bytes: u64) -> Profile {
        Profile {
            max_bytes,
            tiny_mss: true,
            faults: true,
            blackhole: true,
            emsgsize: true,
            backpressure: true,
            stale: true,
            cuts: true,
            asym_mtu: true,
            small_rx: true,
            small_tx: true,
            both_dirs: true,
            slow_reader: true,
            end_mix: true,
            suspend: true,
        }
    }
}

pub fn pick_latency_us(r: &mut Rng) -> u64 {
    *r.pick(&[0, 1000, 2000, 5000, 10_000, 20_000, 50_000, 100_000, 300_000])
}

pub fn gen_env(r: &mut Rng) -> EnvCfg {
    let seed = r.next();
    // Each socket draws: next_connection_id at creation, then one value per connect/accept.
    let forced = match r.below(4) {
        0 => {
            // ISNs near the 16-bit wrap
            (0..4).map(|_| 65535u16.wrapping_sub(r.below(40) as u16)).collect()
        }
        1 => (0..4).map(|_| r.below(3) as u16).collect(),
        _ => vec![],
    };
    EnvCfg { seed, forced }
}

/// Payload size (uTP payload bytes) that fits a link MTU for the address family.
pub fn max_payload(link_mtu: usize, ipv6: bool) -> usize {
    let ip = if ipv6 { 40 } else { 20 };
    let min = ip + 8 + 20 + 1;
    link_mtu.max(min) - ip - 8 - 20
}

pub fn min_payload(link_mtu: usize, ipv6: bool) -> usize {
    let floor = if ipv6 { 1280 } else { 576 };
    max_payload(link_mtu.min(floor), ipv6)
}

pub fn gen_link_mtu(r: &mut Rng, tiny: bool) -> Option<usize> {
    match r.below(20) {
        0..=7 => None,
        8 | 9 => Some(576),
        10..=12 if tiny => Some(r.range(49, 130) as usize),
        10..=12 => Some(r.range(577, 1500) as usize),
        13..=15 => Some(r.range(577, 1500) as usize),
        16 => Some(9000),
        17 => Some(r.range(1501, 4000) as usize),
        _ => Some(r.range(131, 575) as usize),
    }
}

pub fn gen_opts(r: &mut Rng, p: &Profile, link_mtu: Option<usize>, max_link_mtu: usize) -> OptsCfg {
    let mut o = OptsCfg { link_mtu, ..Default::default() };
    if p.small_rx && r.chance(0.5) {
        let lo = (2 * max_link_mtu) as u64;
        o.rx_buf = Some(r.log_range(lo, 65536.max(lo * 2)) as usize);
    }
    if p.small_tx && r.chance(0.6) {
        o.tx_init = Some(r.log_range(16, 65536) as usize);
        if r.chance(0.6) {
            // both >= and < initial
            o.tx_max = Some(r.log_range(16, 262_144) as usize);
        }
    }
    o.disable_nagle = r.chance(0.3);
    o.cc_tracing = r.chance(0.1);
    if r.chance(0.5) {
        o.max_retx = Some(r.range(2, 12) as usize);
    }
    if r.chance(0.5) {
        o.inactivity_ms = Some(r.log_range(1000, 600_000));
    }
    if r.chance(0.4) {
        o.mtu_probe_retx = Some(r.below(4) as usize);
    }
    o.dont_wait_lastack = r.chance(0.3);
    o
}

pub fn gen_net(r: &mut Rng, p: &Profile, link_mtus: &[usize], ipv6: bool) -> NetCfg {
    let latency_us = pick_latency_us(r);
    let mut n = NetCfg { seed: r.next(), latency_us, protect_syn: true, ..Default::default() };
    n.jitter_us = match r.below(4) {
        0 => 0,
        1 => r.range(0, 2000),
        2 => latency_us / 2,
        _ => latency_us + r.range(0, 5000),
    };
    if !p.faults {
        return n;
    }
    // Swarm: each fault kind is enabled for a random subset of runs.
    if r.chance(0.7) {
        n.drop_p = *r.pick(&[0.002, 0.01, 0.02, 0.05, 0.1, 0.2]);
    }
    if r.chance(0.2) {
        n.burst = Some((*r.pick(&[0.005, 0.02]), *r.pick(&[0.3, 0.6, 0.8])));
    }
    if r.chance(0.3) {
        n.dup_p = *r.pick(&[0.01, 0.05, 0.2]);
    }
    if p.stale && r.chance(0.2) {
        n.stale_p = *r.pick(&[0.005, 0.02]);
        n.stale_ms = r.range(200, 4000);
    }
    if r.chance(0.2) {
        let t = r.below(5) as usize;
        n.type_drop_p[t] = *r.pick(&[0.1, 0.3, 0.6]);
        n.type_drop_p[4] = 0.0;
    }
    let min_link = *link_mtus.iter().min().unwrap();
    let lo = min_payload(min_link, ipv6) + if ipv6 { 68 } else { 48 };
    if p.blackhole && r.chance(0.25) && min_link > lo {
        n.blackhole_ip = Some(r.range(lo as u64, min_link as u64) as usize);
    }
    if p.emsgsize && r.chance(0.15) && min_link > lo {
        n.emsgsize_ip = Some(r.range(lo as u64, min_link as u64) as usize);
    }
    if p.backpressure && r.chance(0.2) {
        n.pending_p = *r.pick(&[0.01, 0.05, 0.2]);
        n.pending_us = r.range(1, 30_000);
    }
    if p.cuts && r.chance(0.1) {
        let from = r.range(0, 2000);
        n.cuts.push(Cut { from_ms: from, to_ms: Some(from + r.range(10, 3000)), dir: if r.chance(0.5) { CutDir::Both } else { CutDir::From(r.below(2) as usize) } });
    }
    n
}

pub fn gen_writes(r: &mut Rng, total: u64, ring_hint: usize, mss_hint: usize) -> Vec<WOp> {
    let mut ops = vec![];
    let mut left = total;
    if left == 0 {
        return ops;
    }
    let pieces = r.range(1, 4);
    for i in 0..pieces {
        let n = if i + 1 == pieces { left } else { r.range(1, left.max(1)) };
        if n == 0 {
            continue;
        }
        let chunk = match r.below(7) {
            0 => 1,
            1 => mss_hint.saturating_sub(1).max(1),
            2 => mss_hint,
            3 => mss_hint + 1,
            4 => ring_hint.saturating_sub(1).max(1),
            5 => ring_hint + 1,
            _ => r.log_range(1, 65536) as usize,
        };
        // Chunk size 1 with many bytes is slow; cap the number of calls.
        let chunk = chunk.max((n / 4000) as usize + 1);
        ops.push(WOp::Write { n, chunk });
        left -= n;
        if left == 0 {
            break;
        }
        match r.below(5) {
            0 => ops.push(WOp::Flush),
            1 => ops.push(WOp::Sleep(r.log_range(1, 3000))),
            2 => ops.push(WOp::Yield(r.range(1, 3) as u32)),
            _ => {}
        }
    }
    ops
}

pub fn gen_reads(r: &mut Rng, slow: bool) -> Vec<ROp> {
    let mut ops = vec![];
    let buf = match r.below(6) {
        0 => 1,
        1 => r.range(2, 64) as usize,
        2 => 65536,
        _ => r.log_range(64, 16384) as usize,
    };
    let vectored = r.chance(0.25);
    if slow && r.chance(0.35) {
        // paused / slow reader: closes the window
        for _ in 0..r.range(1, 4) {
            ops.push(ROp::Read { n: r.log_range(1, 20000), buf: buf.max(16), vectored });
            ops.push(ROp::Sleep(r.log_range(1, 2500)));
        }
    }
    // Reading byte by byte to the end of a long stream is slow: use at least 16-byte reads for the tail.
    ops.push(ROp::Read { n: u64::MAX, buf: if buf < 16 && r.chance(0.8) { 4096 } else { buf }, vectored });
    ops
}

/// Generic duplex scenario: two real sockets, one connection.
pub fn duplex(seed: u64, family: &str, p: &Profile) -> Scenario {
    let mut r = Rng::new(seed);
    let ipv6 = r.chance(0.25);
    let mtu_a = gen_link_mtu(&mut r, p.tiny_mss);
    let mtu_b = if p.asym_mtu && r.chance(0.3) { gen_link_mtu(&mut r, p.tiny_mss) } else { mtu_a };
    let la = mtu_a.unwrap_or(1500);
    let lb = mtu_b.unwrap_or(1500);
    let max_link = la.max(lb);
    let tiny = la.min(lb) < 200;
    let oa = gen_opts(&mut r, p, mtu_a, max_link);
    let ob = gen_opts(&mut r, p, mtu_b, max_link);
    let net = gen_net(&mut r, p, &[la, lb], ipv6);

    let cap = if tiny { p.max_bytes.min(6_000) } else { p.max_bytes };
    let bytes_a = if r.chance(0.1) { 0 } else { r.log_range(1, cap.max(1)) };
    let bytes_b = if !p.both_dirs || r.chance(0.35) { 0 } else { r.log_range(1, cap.max(1)) };
    // The connector must send something promptly or the acceptor gives up (documented).
    let bytes_a = bytes_a.max(1);

    let mss_a = min_payload(la, ipv6);
    let mss_b = min_payload(lb, ipv6);
    let mut wa = gen_writes(&mut r, bytes_a, oa.tx_init(), mss_a);
    let mut wb = gen_writes(&mut r, bytes_b, ob.tx_init(), mss_b);
    let end = |r: &mut Rng, w: &mut Vec<WOp>| {
        if !p.end_mix {
            w.push(WOp::Flush);
            w.push(WOp::Shutdown);
            return;
        }
        match r.below(6) {
            0 => w.push(WOp::Drop),
            1 => {
                w.push(WOp::Flush);
                w.push(WOp::Shutdown);
            }
            2 => {
                w.push(WOp::Shutdown);
                w.push(WOp::Drop);
            }
            3 => {
                w.push(WOp::Flush);
            }
            _ => w.push(WOp::Shutdown),
        }
    };
    end(&mut r, &mut wa);
    end(&mut r, &mut wb);
    let ra = gen_reads(&mut r, p.slow_reader);
    let rb = gen_reads(&mut r, p.slow_reader);

    let mut global = vec![];
    if p.suspend && r.chance(0.05) {
        global.push(GlobalOp::Suspend { at_ms: r.log_range(1, 5000), dur_ms: r.log_range(100, 3_600_000) });
    }

    Scenario {
        family: family.to_string(),
        seed,
        net,
        nodes: vec![
            NodeCfg { ipv6, opts: oa, env: gen_env(&mut r) },
            NodeCfg { ipv6, opts: ob, env: gen_env(&mut r) },
        ],
        connects: vec![ConnectScript { node: 0, to: 1, at_ms: 0, cancel_after_ms: None, side: Side { w: wa, r: ra } }],
        accepts: vec![AcceptScript { node: 1, at_ms: 0, cancel_after_ms: None, side: Side { w: wb, r: rb } }],
        global,
        peer: None,
        script_cap_ms: 600_000,
        settle_ms: 2_000,
        params: Default::default(),
    }
}
