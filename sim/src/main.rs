mod analysis;
mod attack;
mod check;
mod codec;
mod env;
mod families;
mod scen_gen;
mod hist;
mod known;
mod minimise;
mod net;
mod oracles;
mod peer;
mod scenario;
mod util;
mod world;

use std::path::PathBuf;

use check::{CheckOpts, Tier};

fn usage() -> ! {
    eprintln!(
        "usage:\n  utpsim check <Cxx> [--tier quick|thorough] [--scale f] [--threads n] [--wall-cap s]\n  utpsim replay <file>\n  utpsim run <family> <property> <seed> [--trace] [--probes]\n  utpsim selftest-determinism [n]\n  (env: VERIF_SEED, VERIF_TIER, VERIF_DIR)"
    );
    std::process::exit(2)
}

fn verif_dir() -> PathBuf {
    std::env::var_os("VERIF_DIR").map(PathBuf::from).unwrap_or_else(|| PathBuf::from("/verif"))
}

fn main() {
    world::install_panic_hook();
    let args: Vec<String> = std::env::args().skip(1).collect();
    if args.is_empty() {
        usage();
    }
    let flag = |name: &str| -> Option<String> {
        args.iter().position(|a| a == name).and_then(|i| args.get(i + 1).cloned())
    };
    let has = |name: &str| args.iter().any(|a| a == name);
    let base_seed = std::env::var("VERIF_SEED").ok().and_then(|s| s.parse::<u64>().ok()).unwrap_or(check::DEFAULT_SEED);
    match args[0].as_str() {
        "check" => {
            let property = args.get(1).cloned().unwrap_or_else(|| usage());
            let tier_s = flag("--tier").or_else(|| std::env::var("VERIF_TIER").ok()).unwrap_or_else(|| "quick".into());
            let tier = match tier_s.as_str() {
                "quick" => Tier::Quick,
                "thorough" => Tier::Thorough,
                _ => usage(),
            };
            let o = CheckOpts {
                property,
                tier,
                base_seed,
                threads: flag("--threads").and_then(|s| s.parse().ok()).unwrap_or_else(|| std::thread::available_parallelism().map(|n| n.get()).unwrap_or(8)),
                scale: flag("--scale").and_then(|s| s.parse().ok()).unwrap_or(1.0),
                wall_cap_s: flag("--wall-cap").and_then(|s| s.parse().ok()).unwrap_or(match tier {
                    Tier::Quick => 150.0,
                    Tier::Thorough => 1500.0,
                }),
            };
            std::process::exit(check::check(&o, &verif_dir()));
        }
        "replay" => {
            let path = args.get(1).cloned().unwrap_or_else(|| usage());
            std::process::exit(replay(&path, has("--trace")));
        }
        "run" => {
            let family = args.get(1).cloned().unwrap_or_else(|| usage());
            let property = args.get(2).cloned().unwrap_or_else(|| usage());
            let seed: u64 = args.get(3).and_then(|s| s.parse().ok()).unwrap_or_else(|| usage());
            let fams = families::families(&property);
            let fam = fams.iter().find(|f| f.name == family).unwrap_or_else(|| {
                eprintln!("family not found; available: {:?}", fams.iter().map(|f| f.name).collect::<Vec<_>>());
                std::process::exit(2)
            });
            let mut sc = (fam.generate)(seed);
            if has("--c09-variant") {
                // show the shifted run of the metamorphic pair instead of the base run
                sc = utpsim_c09_variant(&sc);
            }
            let (out, res) = check::evaluate(&property, &sc);
            if has("--scenario") {
                println!("{}", serde_json::to_string_pretty(&sc).unwrap());
            }
            if has("--trace") {
                println!("{}", hist::render(&out.hist, 100000, has("--probes")));
            }
            println!("hash={:016x} events={} t_end={} cap_hit={} faults={:?} probes={:?} relevant={}", out.hist.hash.0, out.hist.evs.len(), hist::fmt_t(out.t_end), out.cap_hit, out.hist.fault_counts, res.probes, res.relevant);
            let known = known::load(std::path::Path::new(&std::env::var("VERIF_DIR").unwrap_or_else(|_| "/verif".into())));
            for v in &res.violations {
                let k = known::matches(&known, &property, v.tag, &sc, &out, v).map(|f| f.id.clone());
                println!("VIOLATION-DETAIL {} {} t={} known={:?} {}", v.property, v.tag, hist::fmt_t(v.t), k, v.msg);
            }
            for p in &out.hist.panics {
                println!("PANIC {}", p);
            }
        }
        "seeds" => {
            // utpsim seeds <property> <scale>: print family and run seed of every planned run
            let property = args.get(1).cloned().unwrap_or_else(|| usage());
            let scale: f64 = args.get(2).and_then(|s| s.parse().ok()).unwrap_or(1.0);
            let fams = families::families(&property);
            for (fi, f) in fams.iter().enumerate() {
                let n = ((f.quick as f64) * scale).ceil() as u64;
                for i in 0..n {
                    println!("{} {}", f.name, check::fam_seed(base_seed, &fams, fi, i));
                }
            }
        }
        "selftest-determinism" => {
            let n: u64 = args.get(1).and_then(|s| s.parse().ok()).unwrap_or(50);
            let mut total = 0;
            for p in families::ALL {
                let fams = families::families(p);
                match check::selftest_determinism(p, &fams, base_seed, n) {
                    Ok(k) => total += k,
                    Err(e) => {
                        eprintln!("determinism self-test FAILED for {}: {}", p, e);
                        std::process::exit(2);
                    }
                }
            }
            println!("determinism self-test ok: {} scenarios x (2 executions + explicit replay)", total);
        }
        _ => usage(),
    }
}

fn replay(path: &str, trace: bool) -> i32 {
    let s = match std::fs::read_to_string(path) {
        Ok(s) => s,
        Err(e) => {
            eprintln!("cannot read {}: {}", path, e);
            return 2;
        }
    };
    let v: serde_json::Value = serde_json::from_str(&s).expect("replay json");
    let property = v["property"].as_str().expect("property").to_string();
    let tag = v["tag"].as_str().expect("tag").to_string();
    let sc: scenario::Scenario = serde_json::from_value(v["scenario"].clone()).expect("scenario");
    let expected_hash = v["expected_event_hash"].as_str().unwrap_or("").to_string();
    let (out, res) = check::evaluate(&property, &sc);
    if trace {
        println!("{}", hist::render(&out.hist, 100000, true));
    }
    let got_hash = format!("{:016x}", out.hist.hash.0);
    match res.violations.iter().find(|x| x.tag == tag) {
        Some(x) => {
            println!("VIOLATION property={} replay={}", property, path);
            println!("  tag={} t={} {}", tag, hist::fmt_t(x.t), x.msg);
            if got_hash != expected_hash {
                println!("  note: event hash {} differs from recorded {} (code under test changed?)", got_hash, expected_hash);
            } else {
                println!("  event hash {} reproduced exactly", got_hash);
            }
            1
        }
        None => {
            println!("replay did not reproduce tag {} (event hash {} vs recorded {})", tag, got_hash, expected_hash);
            0
        }
    }
}

fn utpsim_c09_variant(sc: &scenario::Scenario) -> scenario::Scenario {
    oracles::c09::variant(sc)
}
