//! Scenario: the complete, explicit description of one simulated run. A run is a pure
//! function of (Scenario, code under test). Replay files contain a Scenario.
use std::net::{IpAddr, Ipv4Addr, Ipv6Addr, SocketAddr};

use serde::{Deserialize, Serialize};

use crate::{env::EnvCfg, net::{CutDir, NetCfg}};

#[derive(Clone, Debug, Default, PartialEq, Serialize, Deserialize)]
pub struct OptsCfg {
    #[serde(default)]
    pub link_mtu: Option<usize>,
    #[serde(default)]
    pub rx_buf: Option<usize>,
    #[serde(default)]
    pub tx_init: Option<usize>,
    #[serde(default)]
    pub tx_max: Option<usize>,
    #[serde(default)]
    pub disable_nagle: bool,
    #[serde(default)]
    pub cc_tracing: bool,
    #[serde(default)]
    pub max_retx: Option<usize>,
    #[serde(default)]
    pub inactivity_ms: Option<u64>,
    #[serde(default)]
    pub max_live: Option<usize>,
    #[serde(default)]
    pub dont_wait_lastack: bool,
    #[serde(default)]
    pub mtu_probe_retx: Option<usize>,
}

impl OptsCfg {
    pub fn max_retx(&self) -> usize {
        self.max_retx.unwrap_or(5)
    }
    pub fn inactivity_ms(&self) -> u64 {
        self.inactivity_ms.unwrap_or(10_000)
    }
    pub fn link_mtu(&self) -> usize {
        self.link_mtu.unwrap_or(1500)
    }
    pub fn rx_buf(&self) -> usize {
        self.rx_buf.unwrap_or(1024 * 1024)
    }
    pub fn tx_init(&self) -> usize {
        self.tx_init.unwrap_or(32 * 1024)
    }
    pub fn tx_max(&self) -> usize {
        self.tx_max.unwrap_or(1024 * 1024)
    }
    pub fn max_live(&self) -> usize {
        self.max_live.unwrap_or(128)
    }
    pub fn mtu_probe_retx(&self) -> usize {
        self.mtu_probe_retx.unwrap_or(1)
    }
}

#[derive(Clone, Debug, Default, PartialEq, Serialize, Deserialize)]
pub struct NodeCfg {
    #[serde(default)]
    pub ipv6: bool,
    #[serde(default)]
    pub opts: OptsCfg,
    #[serde(default)]
    pub env: EnvCfg,
}

pub fn node_addr(idx: usize, ipv6: bool) -> SocketAddr {
    let port = 1000 + idx as u16;
    if ipv6 {
        SocketAddr::new(IpAddr::V6(Ipv6Addr::new(0xfd00, 0, 0, 0, 0, 0, 0, 1 + idx as u16)), port)
    } else {
        SocketAddr::new(IpAddr::V4(Ipv4Addr::new(10, 0, 0, 1 + idx as u8)), port)
    }
}

#[derive(Clone, Debug, PartialEq, Serialize, Deserialize)]
pub enum WOp {
    /// Write `n` stream bytes in chunks of at most `chunk` bytes per poll_write call.
    Write { n: u64, chunk: usize },
    /// Like Write, but a write call that stays blocked for `ms` is abandoned (its future is
    /// dropped, as by a timeout or select!) and the half is polled again from a different task
    /// context (a fresh waker; the abandoned one is dead and ignores wake-ups).
    WriteImpatient { n: u64, chunk: usize, ms: u64 },
    Flush,
    Shutdown,
    Sleep(u64),
    /// Yield to the scheduler k times (no clock advance).
    Yield(u32),
    Drop,
    /// Cut the network at this very instant (forever).
    CutNet { dir: CutDir, drop_in_flight: bool },
    /// Application-level framing: wait until the local reader has read at least n stream bytes
    /// (or has finished) before going on (typically before closing).
    WaitRead(u64),
}

#[derive(Clone, Debug, PartialEq, Serialize, Deserialize)]
pub enum ROp {
    /// Read until `n` more bytes have been read (u64::MAX = until EOF/error), `buf`-sized reads.
    Read { n: u64, buf: usize, vectored: bool },
    Sleep(u64),
    Yield(u32),
    Drop,
}

#[derive(Clone, Debug, Default, PartialEq, Serialize, Deserialize)]
pub struct Side {
    pub w: Vec<WOp>,
    pub r: Vec<ROp>,
}

#[derive(Clone, Debug, PartialEq, Serialize, Deserialize)]
pub struct ConnectScript {
    pub node: usize,
    pub to: usize,
    pub at_ms: u64,
    /// Drop the connect future after this long if it has not completed.
    #[serde(default)]
    pub cancel_after_ms: Option<u64>,
    pub side: Side,
}

#[derive(Clone, Debug, PartialEq, Serialize, Deserialize)]
pub struct AcceptScript {
    pub node: usize,
    pub at_ms: u64,
    #[serde(default)]
    pub cancel_after_ms: Option<u64>,
    pub side: Side,
}

#[derive(Clone, Debug, PartialEq, Serialize, Deserialize)]
pub enum GlobalOp {
    /// Peer process crash: endpoint stops receiving, its socket token is cancelled.
    Kill { node: usize, at_ms: u64 },
    /// Cancel the socket's cancellation token.
    Cancel { node: usize, at_ms: u64 },
    /// Advance the clock by dur_ms in one step (process suspend).
    Suspend { at_ms: u64, dur_ms: u64 },
    /// Forge an ST_RESET towards `to_node` using ids/numbers of the last datagram it was sent.
    InjectReset { to_node: usize, at_ms: u64 },
}

#[derive(Clone, Debug, Default, PartialEq, Serialize, Deserialize)]
pub struct Scenario {
    pub family: String,
    pub seed: u64,
    pub net: NetCfg,
    pub nodes: Vec<NodeCfg>,
    #[serde(default)]
    pub connects: Vec<ConnectScript>,
    #[serde(default)]
    pub accepts: Vec<AcceptScript>,
    #[serde(default)]
    pub global: Vec<GlobalOp>,
    #[serde(default)]
    pub peer: Option<crate::peer::PeerScript>,
    #[serde(default)]
    pub attack: Option<crate::attack::AttackScript>,
    /// Virtual-time cap for the scripted part.
    pub script_cap_ms: u64,
    /// Virtual time to keep running after the script finished (or the cap was hit).
    pub settle_ms: u64,
    /// Free-form parameters that oracles need (family-specific).
    #[serde(default)]
    pub params: std::collections::BTreeMap<String, i64>,
}

impl Scenario {
    /// Hash of the application scripts (connect and accept calls with their stream scripts).
    /// Families whose oracle expects a particular conversation record it as a parameter: a
    /// minimiser that edits the scripts then leaves the space the oracle can judge.
    pub fn app_scripts_hash(&self) -> i64 {
        let mut h = crate::util::Fnv::default();
        h.bytes(serde_json::to_string(&(&self.connects, &self.accepts)).unwrap_or_default().as_bytes());
        (h.0 >> 1) as i64
    }

    pub fn addr(&self, node: usize) -> SocketAddr {
        // Indices beyond the real nodes address scripted peers / attackers (same family).
        let ipv6 = self.nodes.get(node).map(|n| n.ipv6).unwrap_or_else(|| self.nodes[0].ipv6);
        node_addr(node, ipv6)
    }
    pub fn param(&self, k: &str) -> Option<i64> {
        self.params.get(k).copied()
    }
    /// PRF key of the stream written by the connector (dir 0) / acceptor (dir 1) of connect k.
    pub fn stream_key(&self, k: usize, dir: u8) -> u64 {
        crate::util::h3(self.seed ^ 0xC0FFEE, k as u64, dir as u64)
    }
}
