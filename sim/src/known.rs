//! Known findings: committed list of genuine defects that are recorded rather than repaired.
//! A violation whose failing history matches a listed signature prints KNOWN-FINDING and does
//! not fail the check. `fixed` entries suppress nothing.
use serde::Deserialize;

use crate::{analysis::Violation, scenario::Scenario, world::RunOutput};

#[derive(Clone, Debug, Deserialize)]
pub struct Finding {
    pub id: String,
    pub property: String,
    /// "known" or "fixed"
    pub status: String,
    /// Oracle tag the finding shows up under.
    #[serde(default)]
    pub tag: String,
    /// Name of the signature predicate (see `signature_matches`).
    #[serde(default)]
    pub signature: String,
    pub summary: String,
    #[serde(default)]
    pub commit: Option<String>,
}

#[derive(Clone, Debug, Default, Deserialize)]
pub struct KnownFile {
    #[serde(default)]
    pub findings: Vec<Finding>,
}

pub fn load(verif_dir: &std::path::Path) -> KnownFile {
    let p = verif_dir.join("known_findings.json");
    match std::fs::read_to_string(&p) {
        Ok(s) => serde_json::from_str(&s).unwrap_or_else(|e| {
            eprintln!("HARNESS ERROR: cannot parse {}: {}", p.display(), e);
            std::process::exit(2);
        }),
        Err(_) => KnownFile::default(),
    }
}

pub fn matches<'a>(k: &'a KnownFile, property: &str, tag: &str, sc: &Scenario, out: &RunOutput, v: &Violation) -> Option<&'a Finding> {
    k.findings.iter().find(|f| {
        f.status == "known" && f.property == property && f.tag == tag && signature_matches(&f.signature, sc, out, v)
    })
}

/// Signature predicates over the failing history. Each is specific to one defect, so a
/// different violation of the same property is still reported.
pub fn signature_matches(sig: &str, sc: &Scenario, out: &RunOutput, v: &Violation) -> bool {
    match sig {
        // F1: an MTU probe (payload larger than the proven segment size) was delivered to the
        // receiver, its acknowledgement did not arrive in time, the probe was popped and its
        // bytes re-segmented under the same sequence number with a different length. The
        // receiver then takes the following (re-cut) segment as new data.
        "delivered-probe-resegmented" => delivered_probe_resegmented(sc, out, v, false),
        "delivered-probe-resegmented-exact-offset" => delivered_probe_resegmented(sc, out, v, true),
        _ => false,
    }
}

/// Finds ST_DATA packets that were delivered to a real endpoint and whose sequence number
/// was later (re-)emitted by the same sender with a different payload length. Returns
/// (t_of_later_emission, payload of the delivered packet).
pub fn resegmented_after_delivery(out: &RunOutput) -> Vec<(u64, std::net::SocketAddr, std::sync::Arc<crate::codec::Pkt>)> {
    use std::collections::HashMap;
    let mut delivered: HashMap<(std::net::SocketAddr, u16, u16), std::sync::Arc<crate::codec::Pkt>> = HashMap::new();
    let mut res = vec![];
    for (t, ev) in &out.hist.evs {
        match ev {
            crate::hist::Ev::Deliver(d) => {
                if let Some(p) = &d.pkt {
                    if p.typ == crate::codec::ST_DATA {
                        delivered.entry((d.src, p.conn_id, p.seq)).or_insert_with(|| p.clone());
                    }
                }
            }
            crate::hist::Ev::Emit(e) if e.real => {
                if let Some(p) = &e.pkt {
                    if p.typ == crate::codec::ST_DATA {
                        if let Some(dp) = delivered.get(&(e.src, p.conn_id, p.seq)) {
                            if dp.payload.len() != p.payload.len() {
                                res.push((*t, e.src, dp.clone()));
                            }
                        }
                    }
                }
            }
            _ => {}
        }
    }
    res
}

fn delivered_probe_resegmented(sc: &Scenario, out: &RunOutput, v: &Violation, exact: bool) -> bool {
    let reseg = resegmented_after_delivery(out);
    if reseg.is_empty() {
        return false;
    }
    if !exact {
        return reseg.iter().any(|(t, _, _)| *t <= v.t);
    }
    // The mismatch must sit exactly at the end of a delivered-then-resegmented probe: the
    // probe's payload equals the written stream at [m - len, m).
    let Some(m) = v.offset else { return false };
    let Some(key) = v.stream_key else { return false };
    let _ = sc;
    reseg.iter().any(|(t, _, p)| {
        let len = p.payload.len() as u64;
        *t <= v.t && m >= len && (0..8).any(|slack| {
            m >= len + slack && crate::util::prf_mismatch(key, m - len - slack, &p.payload).is_none()
        })
    })
}
