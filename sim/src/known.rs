//! Known findings: committed list of genuine defects that are recorded rather than repaired.
//! A violation whose failing history matches a listed signature prints KNOWN-FINDING and does
//! not fail the check. `fixed` entries suppress nothing.
use serde::Deserialize;

use crate::{analysis::Violation, scenario::Scenario, world::RunOutput};

#[derive(Clone, Debug, Deserialize)]
pub struct Match {
    pub property: String,
    /// Oracle tag the finding shows up under.
    pub tag: String,
    /// Name of the signature predicate (see `signature_matches`).
    pub signature: String,
}

#[derive(Clone, Debug, Deserialize)]
pub struct Finding {
    pub id: String,
    /// "known" or "fixed"
    pub status: String,
    /// Where the finding shows up: (property, oracle tag, signature predicate).
    #[serde(default)]
    pub matches: Vec<Match>,
    pub summary: String,
    #[serde(default)]
    pub commit: Option<String>,
}

#[derive(Clone, Debug, Default, Deserialize)]
pub struct KnownFile {
    #[serde(default)]
    pub findings: Vec<Finding>,
}

pub fn load(verif_dir: &std::path::Path) -> KnownFile {
    let p = verif_dir.join("known_findings.json");
    match std::fs::read_to_string(&p) {
        Ok(s) => serde_json::from_str(&s).unwrap_or_else(|e| {
            eprintln!("HARNESS ERROR: cannot parse {}: {}", p.display(), e);
            std::process::exit(2);
        }),
        Err(_) => KnownFile::default(),
    }
}

pub fn matches<'a>(k: &'a KnownFile, property: &str, tag: &str, sc: &Scenario, out: &RunOutput, v: &Violation) -> Option<&'a Finding> {
    k.findings.iter().find(|f| {
        f.status == "known" && f.matches.iter().any(|m| m.property == property && m.tag == tag && signature_matches(&m.signature, sc, out, v))
    })
}

/// Signature predicates over the failing history. Each is specific to one defect, so a
/// different violation of the same property is still reported.
pub fn signature_matches(sig: &str, sc: &Scenario, out: &RunOutput, v: &Violation) -> bool {
    match sig {
        // the oracle tag itself is specific to the finding
        "always" => true,
        // the oracle recorded the defect-specific context flag
        "aux-flag" => v.aux == Some(1),
        // F21: the oracle saw a sender with nothing in flight holding segments whose bytes
        // exceed the peer's (non-zero) window
        "aux-precut-beyond-window" => v.aux == Some(21),
        // F31: the oracle saw that an end of the failing connection had a send refused
        // ('pending') and was not polled again when the socket became writable
        "aux-send-wakeup-lost" => v.aux == Some(31),
        // F1: an MTU probe (payload larger than the proven segment size) was delivered to the
        // receiver, its acknowledgement did not arrive in time, the probe was popped and its
        // bytes re-segmented under the same sequence number with a different length. The
        // receiver then takes the following (re-cut) segment as new data.
        "delivered-probe-resegmented" => delivered_probe_resegmented(sc, out, v, false),
        "delivered-probe-resegmented-exact-offset" => delivered_probe_resegmented(sc, out, v, true),
        // F1 seen at EOF: the reader has MORE bytes than precede the FIN (duplicated range).
        // F1 seen at EOF: the reader's byte count differs from what precedes the FIN, and the
        // writer of that very stream re-cut a sequence number the reader had already consumed
        // in another length (the reader gets a range twice, or misses one).
        "delivered-probe-resegmented-eof" => {
            v.offset.zip(v.aux).is_some_and(|(read, expected)| read != expected)
                && v.wnode.is_some_and(|w| resegmented_after_delivery(out).iter().any(|(t, src, _)| *t <= v.t && *src == sc.addr(w)) || taken_back_probes(out, v.t).iter().any(|(src, _)| *src == sc.addr(w)))
        }
        // F1 seen on the wire by the sender-side oracle: the very sequence number that is
        // re-emitted after its acknowledgement (v.offset) is one that was delivered in one length
        // and emitted in another (the acknowledgement of the delivered probe was not honoured
        // because the probe had been popped).
        "this-seq-delivered-probe-resegmented" => {
            v.offset.is_some_and(|s| resegmented_after_delivery(out).iter().any(|(t, _, p)| *t <= v.t && p.seq as u64 == s))
        }
        // F1 seen from the sender's writer: the probe was delivered before the violation instant
        // and the sender cut that sequence number differently at some point of the run (the
        // acknowledgement of the delivered probe found the segment already popped and was not
        // honoured, so the blocked writer is not woken by it).
        "delivered-probe-popped-before-its-ack" => {
            use crate::hist::Ev;
            use std::collections::{HashMap, HashSet};
            let evs = &out.hist.evs;
            // (events are in time order)
            let end = evs.partition_point(|(t, _)| *t <= v.t);
            let start_t = evs.partition_point(|(t, _)| *t < v.t);
            let mut delivered: HashMap<(std::net::SocketAddr, u16, u16), usize> = Default::default();
            let mut delivered_by_src: HashMap<std::net::SocketAddr, HashSet<u16>> = Default::default();
            for (_, ev) in &evs[..end] {
                if let Ev::Deliver(d) = ev {
                    if let Some(p) = &d.pkt {
                        if p.typ == crate::codec::ST_DATA && !d.corrupted {
                            delivered.entry((d.src, p.conn_id, p.seq)).or_insert(p.payload.len());
                            delivered_by_src.entry(d.src).or_default().insert(p.seq);
                        }
                    }
                }
            }
            let recut = evs.iter().any(|(_, ev)| match ev {
                Ev::Emit(e) if e.real => e.pkt.as_ref().is_some_and(|p| p.typ == crate::codec::ST_DATA && delivered.get(&(e.src, p.conn_id, p.seq)).is_some_and(|l| *l != p.payload.len())),
                _ => false,
            });
            if recut {
                return true;
            }
            let _ = (start_t, end, &delivered_by_src);
            let taken_back = !taken_back_probes(out, v.t).is_empty();
            taken_back
        }
        // F7 (same root cause as F1): a popped MTU probe is re-cut into MORE segments after the
        // connection already assigned its FIN the next sequence number (fin-wait-1): a data
        // segment takes the FIN's number, the FIN is never sent, the closer gives up 1 s later
        // and the peer's outstanding data is never acknowledged.
        "resegmented-past-fin" => !resegmented_past_fin_nodes(sc, out).is_empty(),
        // F29: before the violation instant the endpoint emitted one data sequence number in
        // two lengths, the first one longer (an MTU probe that was taken back and re-cut into
        // more, smaller segments), and it had put its FIN on the wire before the re-cut.
        "probe-recut-after-fin-was-sent" => {
            use crate::hist::Ev;
            let mut first_len: std::collections::HashMap<(std::net::SocketAddr, u16, u16), usize> = Default::default();
            let mut fin_out: std::collections::HashSet<(std::net::SocketAddr, u16)> = Default::default();
            let mut hit = false;
            for (t, ev) in &out.hist.evs {
                if *t > v.t {
                    break;
                }
                if let Ev::Emit(e) = ev {
                    if let Some(p) = e.pkt.as_ref().filter(|_| e.real) {
                        if p.typ == crate::codec::ST_FIN {
                            fin_out.insert((e.src, p.conn_id));
                        } else if p.typ == crate::codec::ST_DATA {
                            let l = *first_len.entry((e.src, p.conn_id, p.seq)).or_insert(p.payload.len());
                            if p.payload.len() < l && fin_out.contains(&(e.src, p.conn_id)) {
                                hit = true;
                            }
                        }
                    }
                }
            }
            hit
        }
        // F29 seen by the state invariant: after the endpoint's FIN was put on the wire a snapshot
        // shows the largest segment size lower than in the previous snapshot (an MTU probe was
        // declared lost) and a send position below the segment in front of the FIN: the last
        // data segment was taken back behind the FIN. With the peer's window closed at that
        // moment nothing is in flight any more and no timer runs (F6), FIN included.
        "probe-taken-back-after-fin-was-sent" => {
            use crate::hist::Ev;
            let mut fin_of: std::collections::HashMap<(std::net::SocketAddr, u16), u16> = Default::default();
            let mut prev_max: std::collections::HashMap<(std::net::SocketAddr, u16), u16> = Default::default();
            let mut hit = false;
            for (t, ev) in &out.hist.evs {
                if *t > v.t {
                    break;
                }
                match ev {
                    Ev::Emit(e) if e.real => {
                        if let Some(p) = e.pkt.as_ref().filter(|p| p.typ == crate::codec::ST_FIN) {
                            fin_of.entry((e.src, p.conn_id)).or_insert(p.seq);
                        }
                    }
                    Ev::Probe(librqbit_utp::verif::ProbeEvent::ConnPoll(sn)) => {
                        let k = (sn.key.local, sn.key.conn_id_send);
                        if let (Some(f), Some(pm)) = (fin_of.get(&k), prev_max.get(&k)) {
                            if sn.max_ss < *pm && crate::util::seq_lt(sn.last_sent_seq_nr, f.wrapping_sub(1)) {
                                hit = true;
                            }
                        }
                        prev_max.insert(k, sn.max_ss);
                    }
                    _ => {}
                }
            }
            hit
        }
        // F6: an endpoint has accepted-but-unsent data, the peer's last advertised window is
        // zero, nothing is in flight and NO timer is armed: it waits for a window update that
        // was lost (or whose sender is gone) forever. The violation must concern that node
        // (v.node) or, for stream-level tags, any node.
        "zero-window-wait-without-timer" => zero_window_stuck_nodes(sc, out).iter().any(|n| v.node.is_none_or(|a| a == *n)),
        _ => false,
    }
}

/// Nodes whose connection spent at least 30 s of virtual time with buffered un-sent data,
/// nothing in flight, a zero peer window and no retransmission timer armed (end-of-poll
/// snapshots; the task wrapper's 5 s tick guarantees a snapshot every 5 s).
pub fn zero_window_stuck_nodes(sc: &Scenario, out: &RunOutput) -> Vec<usize> {
    use librqbit_utp::verif::ProbeEvent;
    // Per connection: start of the current streak of "stuck" snapshots, longest streak seen.
    let mut streak: std::collections::HashMap<(std::net::SocketAddr, u16), (Option<u64>, u64)> = Default::default();
    for (t, p) in out.hist.probes() {
        if let ProbeEvent::ConnPoll(s) = p {
            let stuck = s.tx_ring_len > 0 && s.flight_size == 0 && s.last_remote_window == 0 && s.t_retransmit.is_none() && s.finished.is_none();
            let e = streak.entry((s.key.local, s.key.conn_id_send)).or_insert((None, 0));
            if stuck {
                let start = *e.0.get_or_insert(t);
                e.1 = e.1.max(t - start);
            } else {
                e.0 = None;
            }
        }
    }
    let mut nodes = vec![];
    for ((local, _), (_, longest)) in streak {
        // 30 s of virtual time without any timer-driven attempt: far beyond any RTO.
        if longest >= 30 * crate::hist::SEC {
            if let Some(n) = (0..sc.nodes.len()).find(|n| sc.addr(*n) == local) {
                nodes.push(n);
            }
        }
    }
    nodes
}

/// Nodes that, while in fin-wait-1/last-ack (FIN number = seq_nr - 1 assigned), emitted an
/// ST_DATA carrying the FIN's sequence number or a later one.
pub fn resegmented_past_fin_nodes(sc: &Scenario, out: &RunOutput) -> Vec<usize> {
    use librqbit_utp::verif::ProbeEvent;
    let mut fin_nr: std::collections::HashMap<(std::net::SocketAddr, u16), u16> = Default::default();
    let mut nodes = vec![];
    for (_, ev) in &out.hist.evs {
        match ev {
            crate::hist::Ev::Probe(ProbeEvent::ConnPoll(s)) => {
                if s.state == "fin-wait-1" || s.state == "last-ack" {
                    fin_nr.entry((s.key.local, s.key.conn_id_send)).or_insert(s.seq_nr.wrapping_sub(1));
                }
            }
            crate::hist::Ev::Emit(e) if e.real => {
                if let Some(p) = &e.pkt {
                    if p.typ == crate::codec::ST_DATA {
                        if let Some(f) = fin_nr.get(&(e.src, p.conn_id)) {
                            if crate::util::seq_diff(p.seq, *f) >= 0 {
                                if let Some(n) = (0..sc.nodes.len()).find(|n| sc.addr(*n) == e.src) {
                                    if !nodes.contains(&n) {
                                        nodes.push(n);
                                    }
                                }
                            }
                        }
                    }
                }
            }
            _ => {}
        }
    }
    nodes
}

/// Finds ST_DATA sequence numbers of which the receiver first got one version while the
/// sender (also) emitted the same sequence number with a different payload length (a popped
/// MTU probe that was delivered or merely delayed). Returns (instant from which both facts
/// hold, sender, the first-delivered version).
pub fn resegmented_after_delivery(out: &RunOutput) -> Vec<(u64, std::net::SocketAddr, std::sync::Arc<crate::codec::Pkt>)> {
    use std::collections::HashMap;
    type Key = (std::net::SocketAddr, u16, u16);
    let mut first_delivered: HashMap<Key, (u64, std::sync::Arc<crate::codec::Pkt>)> = HashMap::new();
    let mut emitted: HashMap<Key, Vec<(u64, usize)>> = HashMap::new();
    for (t, ev) in &out.hist.evs {
        match ev {
            crate::hist::Ev::Deliver(d) if !d.corrupted || d.pkt.is_some() => {
                if let Some(p) = &d.pkt {
                    if p.typ == crate::codec::ST_DATA {
                        first_delivered.entry((d.src, p.conn_id, p.seq)).or_insert_with(|| (*t, p.clone()));
                    }
                }
            }
            crate::hist::Ev::Emit(e) if e.real => {
                if let Some(p) = &e.pkt {
                    if p.typ == crate::codec::ST_DATA {
                        emitted.entry((e.src, p.conn_id, p.seq)).or_default().push((*t, p.payload.len()));
                    }
                }
            }
            // A re-cut version that the transport refused (back-pressure / error) still shows
            // that the sender re-segmented that sequence number.
            crate::hist::Ev::SendFail { src, pkt: Some(p), .. } => {
                if p.typ == crate::codec::ST_DATA {
                    emitted.entry((*src, p.conn_id, p.seq)).or_default().push((*t, p.payload.len()));
                }
            }
            _ => {}
        }
    }
    let mut res = vec![];
    for (k, (td, dp)) in &first_delivered {
        if let Some(ems) = emitted.get(k) {
            if let Some((te, _)) = ems.iter().find(|(_, l)| *l != dp.payload.len()) {
                res.push(((*td).max(*te), k.0, dp.clone()));
            }
        }
    }
    res.sort_by_key(|r| r.0);
    res
}

fn delivered_probe_resegmented(sc: &Scenario, out: &RunOutput, v: &Violation, exact: bool) -> bool {
    let mut reseg = resegmented_after_delivery(out);
    // (the variant in which the acknowledgement arrives before the re-cut bytes are sent: the
    // sender takes it for the shorter, never-sent version and goes on from the wrong offset)
    for (_, p) in taken_back_probes(out, v.t) {
        reseg.push((0, "0.0.0.0:0".parse().unwrap(), p));
    }
    if reseg.is_empty() {
        return false;
    }
    if !exact {
        return reseg.iter().any(|(t, _, _)| *t <= v.t);
    }
    // The mismatch must sit exactly at the end of a delivered-then-resegmented probe: the
    // probe's payload equals the written stream at [m - len, m).
    let Some(m) = v.offset else { return false };
    let Some(key) = v.stream_key else { return false };
    let _ = sc;
    reseg.iter().any(|(t, _, p)| {
        let len = p.payload.len() as u64;
        *t <= v.t && m >= len && (0..8).any(|slack| {
            m >= len + slack && crate::util::prf_mismatch(key, m - len - slack, &p.payload).is_none()
        })
    })
}

/// Delivered data packets S (sender, packet) that their sender took back as a failed MTU probe
/// and that were acknowledged afterwards, up to `until`. "Taken back": an end-of-poll snapshot
/// of the sender shows the search's upper bound (largest segment size) lower than in its
/// previous snapshot - a probe was declared lost in that poll - and a send position below S,
/// although S had been delivered (only the probe, the newest segment, can lie beyond the send
/// position then). "Acknowledged afterwards": a later packet to the sender covers S cumulatively
/// or selectively. The sender takes that acknowledgement for the re-cut, never-sent version of
/// S (another length) and goes on from the wrong stream offset.
pub fn taken_back_probes(out: &RunOutput, until: u64) -> Vec<(std::net::SocketAddr, std::sync::Arc<crate::codec::Pkt>)> {
    use crate::hist::Ev;
    use std::collections::HashMap;
    let evs = &out.hist.evs;
    let end = evs.partition_point(|(t, _)| *t <= until);
    let mut seen_by_src: HashMap<std::net::SocketAddr, HashMap<u16, std::sync::Arc<crate::codec::Pkt>>> = Default::default();
    let mut prev_snap: HashMap<(std::net::SocketAddr, u16), u16> = Default::default(); // (local, send id) -> max_ss
    let mut popped: HashMap<std::net::SocketAddr, Vec<std::sync::Arc<crate::codec::Pkt>>> = Default::default();
    let mut res: Vec<(std::net::SocketAddr, std::sync::Arc<crate::codec::Pkt>)> = vec![];
    for (_, ev) in &evs[..end] {
        match ev {
            Ev::Probe(librqbit_utp::verif::ProbeEvent::ConnPoll(sn)) => {
                let k = (sn.key.local, sn.key.conn_id_send);
                if prev_snap.get(&k).is_some_and(|pm| sn.max_ss < *pm) {
                    if let Some(set) = seen_by_src.get(&sn.key.local) {
                        for (q, p) in set {
                            if p.conn_id == sn.key.conn_id_send && crate::util::seq_lt(sn.last_sent_seq_nr, *q) && crate::util::seq_diff(*q, sn.last_sent_seq_nr) < 64 {
                                popped.entry(sn.key.local).or_default().push(p.clone());
                            }
                        }
                    }
                }
                prev_snap.insert(k, sn.max_ss);
            }
            Ev::Deliver(d) if !d.corrupted && d.pkt.is_some() => {
                let p = d.pkt.as_ref().unwrap();
                if p.typ == crate::codec::ST_DATA {
                    seen_by_src.entry(d.src).or_default().entry(p.seq).or_insert_with(|| p.clone());
                }
                if let Some(list) = popped.get_mut(&d.dst) {
                    let (hit, rest): (Vec<_>, Vec<_>) = list.drain(..).partition(|s| crate::oracles::c14::acked_by(p, s.seq) && crate::util::seq_diff(p.ack.wrapping_add(70), s.seq) >= 0 && crate::util::seq_diff(s.seq, p.ack) > -1000);
                    for s in hit {
                        res.push((d.dst, s));
                    }
                    *list = rest;
                }
            }
            _ => {}
        }
    }
    res
}

/// The acknowledgement number of a packet and the sequence numbers its selective ACK names.
fn acked_seqs(a: &crate::codec::Pkt) -> Vec<u16> {
    let mut v = vec![a.ack];
    if let Some(bits) = a.sack_bits() {
        for (i, b) in bits.iter().enumerate() {
            if *b {
                v.push(a.ack.wrapping_add(2).wrapping_add(i as u16));
            }
        }
    }
    v
}
