//! C04 — receiver honesty: acknowledgement numbers, selective-ACK bits and the advertised
//! window never overstate; acknowledged data is not discarded while the connection lives.
use std::collections::BTreeMap;

use super::{
    pw::{PeerWorld, X},
    OracleResult,
};
use crate::{
    codec,
    hist::{AppKind, AppRes, Half},
    scenario::Scenario,
    util::{seq_diff, seq_le},
    world::RunOutput,
};

pub const P: &str = "C04";

pub fn check(sc: &Scenario, out: &RunOutput) -> OracleResult {
    let mut res = OracleResult::default();
    let Some(w) = PeerWorld::new(sc, out) else {
        res.inconclusive = true;
        return res;
    };
    let exact = sc.param("peer_exact") == Some(1);
    let first = w.script.pkt_seq(0);
    let rx_buf = sc.nodes[0].opts.rx_buf() as i64;
    // delivered data of P's stream: seq -> payload len (first delivered version)
    let mut delivered: BTreeMap<u16, usize> = BTreeMap::new();
    // every ST_DATA sequence number delivered (including data that is not part of the stream)
    let mut delivered_any: std::collections::HashSet<u16> = Default::default();
    // cumulative reference: highest seq such that everything from `first` up to it was delivered
    let mut cum: u16 = first.wrapping_sub(1);
    let mut fin_delivered_in_seq = false;
    let mut fin_delivered_any = false;
    let mut fin_accepted: Option<u16> = None;
    let mut fin_seqs: Vec<u16> = vec![];
    let mut last_ack: Option<u16> = None;
    let mut read_total: i64 = 0;
    let mut max_acked: Option<u16> = None;
    let mut reader_dropped = false;
    let mut reader_err = false;
    let mut reader_eof = false;
    let mut pending_read_since: Option<(u64, u16)> = None; // (t, max ack emitted when the read started)
    let mut established = false;
    let mut ooo_held = false;
    let mut window_below_buf = false;
    let mut sack_emitted = 0u64;
    let mut emissions = 0u64;
    let mut task_ended: Option<u64> = None;
    let bytes_upto = |delivered: &BTreeMap<u16, usize>, upto: u16| -> i64 {
        delivered.iter().filter(|(s, _)| seq_le(**s, upto) && seq_diff(**s, first) >= 0).map(|(_, l)| *l as i64).sum()
    };
    for (t, _, x) in w.events() {
        match x {
            X::DelivE(p, d) => {
                if d.corrupted {
                    continue;
                }
                match p.typ {
                    codec::ST_DATA => {
                        delivered_any.insert(p.seq);
                        let rel = seq_diff(p.seq, first);
                        // only packets of the scripted stream (rogue data is never "delivered data")
                        if fin_accepted.is_none() && rel >= 0 && (rel as usize) < w.script.pkts.len() && p.payload.len() == w.script.pkts[rel as usize] as usize {
                            delivered.entry(p.seq).or_insert(p.payload.len());
                            while delivered.contains_key(&cum.wrapping_add(1)) {
                                cum = cum.wrapping_add(1);
                            }
                        }
                        established = true;
                    }
                    codec::ST_FIN => {
                        fin_delivered_any = true;
                        // A FIN is in sequence when it carries the number right after what was
                        // delivered in order (the endpoint cannot know what the script intended).
                        if fin_accepted.is_none() && p.seq == cum.wrapping_add(1) {
                            fin_accepted = Some(p.seq);
                            fin_delivered_in_seq = true;
                        }
                        fin_seqs.push(p.seq);
                        established = true;
                    }
                    codec::ST_STATE => established = true,
                    _ => {}
                }
            }
            X::EmitE(p, _) => {
                if p.typ == codec::ST_SYN || p.typ == codec::ST_RESET {
                    continue;
                }
                if !established && w.e_first_seq.is_none() {
                    continue;
                }
                emissions += 1;
                // (1) never overstates
                // (a peer that goes on sending after its FIN: the numbers that follow the FIN
                // are received in sequence too and may be acknowledged; the acknowledgement
                // number is about sequence numbers, the stream ended at the FIN)
                let cum_ref = match fin_accepted {
                    Some(f) => {
                        let mut c = f;
                        while (delivered_any.contains(&c.wrapping_add(1)) || fin_seqs.contains(&c.wrapping_add(1))) && seq_diff(c, f) < 4096 {
                            c = c.wrapping_add(1);
                        }
                        c
                    }
                    None => cum,
                };
                if !seq_le(p.ack, cum_ref) {
                    // Before any data the ack number is the handshake's; accept first-1 (and the SYN seq).
                    res.violate(P, "ack-overstates", t, format!("endpoint emitted {} but only up to seq {} was delivered in order (first data seq {})", p.short(), cum_ref, first));
                } else if exact && established && p.typ == codec::ST_STATE && seq_diff(p.ack, first.wrapping_sub(1)) >= 0 && p.ack != cum_ref {
                    res.violate(P, "ack-not-exact", t, format!("paced compliant sender: endpoint emitted {} while seq {} was delivered in order", p.short(), cum_ref));
                }
                // (2) never backwards
                if let Some(la) = last_ack {
                    if seq_diff(p.ack, la) < 0 {
                        res.violate(P, "ack-moves-backwards", t, format!("ack_nr went from {} to {} ({})", la, p.ack, p.short()));
                    }
                }
                last_ack = Some(p.ack);
                if seq_diff(p.ack, first) >= 0 {
                    max_acked = Some(match max_acked {
                        Some(m) if seq_diff(m, p.ack) >= 0 => m,
                        _ => p.ack,
                    });
                }
                // (3) SACK bits
                let mut sacked_bytes: i64 = 0;
                if let Some(bits) = p.sack_bits() {
                    sack_emitted += 1;
                    for (i, b) in bits.iter().enumerate() {
                        let s = p.ack.wrapping_add(2).wrapping_add(i as u16);
                        if *b {
                            match delivered.get(&s) {
                                Some(l) => sacked_bytes += *l as i64,
                                None => {
                                    // a FIN held out of order occupies a slot too; so does data
                                    // that is not part of the scripted stream
                                    if !(fin_delivered_any && fin_seqs.contains(&s)) && !delivered_any.contains(&s) {
                                        res.violate(P, "sack-bit-for-undelivered", t, format!("{}: bit {} claims seq {} which was never delivered", p.short(), i, s));
                                        // context for the known-finding signature: a FIN was accepted
                                        // although data beyond its number had already been delivered
                                        // (or a FIN arrived that carries a number at or below data
                                        // numbers the peer had already used - whether the endpoint
                                        // took it as in sequence depends on what it could store)
                                        let midstream_fin = fin_accepted.is_some_and(|f| delivered_any.iter().any(|d| seq_diff(*d, f) > 0))
                                            || fin_seqs.iter().any(|f| delivered_any.iter().any(|d| seq_diff(*d, *f) >= 0));
                                        res.violations.last_mut().map(|v| v.aux = Some(midstream_fin as u64));
                                    }
                                }
                            }
                        } else if exact && delivered.contains_key(&s) && seq_diff(s, cum) > 0 {
                            res.violate(P, "sack-bit-missing", t, format!("paced compliant sender: {} does not report held seq {} (bit {})", p.short(), s, i));
                        }
                    }
                    // a bitmap that ends before a held packet it could name (64 bits reach
                    // ack_nr + 65) omits that packet just as a zero bit does
                    if exact && p.ack == cum {
                        if let Some(s) = delivered.keys().find(|s| {
                            let d = seq_diff(**s, p.ack);
                            d >= 2 && d < 66 && (d - 2) as usize >= bits.len()
                        }) {
                            res.violate(P, "sack-bit-missing", t, format!("paced compliant sender: {} ends after {} bits and does not report held seq {} (bit {})", p.short(), bits.len(), s, seq_diff(*s, p.ack) - 2));
                        }
                    }
                    if delivered.contains_key(&p.ack.wrapping_add(1)) && exact {
                        res.violate(P, "sack-with-next-delivered", t, format!("{}: selective ACK although seq ack+1 was delivered", p.short()));
                    }
                } else if exact && established && p.typ == codec::ST_STATE {
                    // something held out of order must be reported
                    if delivered.keys().any(|s| seq_diff(*s, cum) > 1 && seq_diff(*s, cum) < 66) && p.ack == cum {
                        res.violate(P, "sack-missing", t, format!("paced compliant sender: {} carries no selective ACK although packets are held out of order", p.short()));
                    }
                }
                if delivered.keys().any(|s| seq_diff(*s, cum) > 1) {
                    ooo_held = true;
                }
                // (4) window never exceeds the free space of the configured buffer
                // (with a hostile sender a FIN may reuse the number of a data packet the endpoint
                // refused to store; the byte accounting is then ambiguous, so the window is judged
                // only until the first FIN is delivered — exact mode has a single proper FIN)
                if seq_diff(p.ack, first.wrapping_sub(1)) >= 0 && (exact || !fin_delivered_any) {
                    // an accepted FIN takes its sequence number: data delivered under that number
                    // (a sender ignoring the window) was not stored
                    let upto = match fin_accepted {
                        Some(f) if seq_diff(p.ack, f) >= 0 => f.wrapping_sub(1),
                        _ => p.ack,
                    };
                    let held = bytes_upto(&delivered, upto) + sacked_bytes - read_total;
                    // (a sender that ignores the window can make the endpoint hold more than the
                    // buffer; the advertised window must then be zero)
                    let free = (rx_buf - held.max(0)).max(0);
                    if (p.wnd as i64) > free {
                        // How much of the overstatement is the message the reader has only partly
                        // consumed (it sits in the read half, outside the window accounting)?
                        let mut boundary: i64 = 0;
                        let mut partial: i64 = 0;
                        let mut ordered: Vec<(i32, usize)> = delivered.iter().map(|(s, l)| (seq_diff(*s, first), *l)).collect();
                        ordered.sort();
                        for (_, l) in ordered {
                            let next = boundary + l as i64;
                            if read_total > boundary && read_total < next {
                                partial = next - read_total;
                                break;
                            }
                            boundary = next;
                        }
                        if (p.wnd as i64) <= free + partial && partial > 0 {
                            res.violate(P, "window-ignores-partially-read-message", t, format!("{}: advertised {} but the configured buffer {} minus acknowledged-and-unread bytes {} leaves {}; the {} bytes of the message the reader has partly consumed are not accounted", p.short(), p.wnd, rx_buf, held, free, partial));
                        } else {
                            res.violate(P, "window-overstates", t, format!("{}: advertised {} but the configured buffer {} minus acknowledged-and-unread bytes {} leaves {}", p.short(), p.wnd, rx_buf, held, free));
                        }
                    }
                    if (p.wnd as i64) < rx_buf - 2 * w.mss_floor as i64 {
                        window_below_buf = true;
                    }
                }
            }
            X::App(a) if a.half == Half::R && a.conn < 1000 => match (&a.kind, &a.res) {
                (AppKind::Read { .. }, AppRes::Ok(n)) => {
                    read_total += *n as i64;
                    pending_read_since = None;
                }
                (AppKind::ReadStart { .. }, _) => {
                    pending_read_since = max_acked.map(|m| (t, m));
                }
                (AppKind::Read { .. }, AppRes::Eof) => {
                    reader_eof = true;
                    pending_read_since = None;
                }
                (AppKind::Read { .. }, AppRes::Err(_)) => {
                    reader_err = true;
                    pending_read_since = None;
                }
                (AppKind::DropHalf, _) => reader_dropped = true,
                (AppKind::Mismatch { off }, AppRes::Err(e)) => {
                    // (5) acknowledged data reaches the reader unaltered and in order
                    res.violate(P, "acked-data-altered", t, format!("reader obtained a wrong byte at stream offset {} ({})", off, e));
                }
                _ => {}
            },
            X::Snap(s) => {
                if s.finished.is_some() && task_ended.is_none() {
                    task_ended = Some(t);
                }
            }
            _ => {}
        }
    }
    // (5) not discarded while the connection lives: a reader that is waiting for more at the end
    // of the run has been handed every byte acknowledged before it started waiting.
    // (a packet larger than the whole configured buffer — a sender ignoring the window — can
    // never be handed over; it blocks the stream, it is not discarded)
    let oversize = delivered.values().any(|l| *l as i64 > rx_buf);
    if !reader_dropped && !reader_err && !reader_eof && !oversize {
        if let Some((ts, m)) = pending_read_since {
            let need = bytes_upto(&delivered, m);
            if read_total < need && task_ended.is_none_or(|te| te > ts) {
                res.violate(P, "acked-data-not-handed-over", out.t_end, format!("reader waiting since {} has {} bytes although {} bytes were acknowledged (ack_nr {}) before", crate::hist::fmt_t(ts), read_total, need, m));
            }
        }
    }
    // (5') nor discarded when the connection ends: a reader that read until the stream ended
    // (end-of-stream or error) has been handed every byte the endpoint acknowledged - the peer
    // was told they arrived. (Not judged: packets larger than the whole buffer; a peer that
    // re-used sequence numbers around its FIN; connections ended by the harness.)
    let fin_amid_data = fin_seqs.iter().any(|f| delivered_any.iter().any(|d| seq_diff(*d, *f) >= 0));
    if (reader_eof || reader_err) && !reader_dropped && !oversize && !fin_amid_data {
        if let Some(m) = max_acked {
            let need = bytes_upto(&delivered, m);
            if read_total < need {
                res.violate(P, "acked-data-not-handed-over", out.t_end, format!("the reader read until the stream ended ({}) and obtained {} bytes although the endpoint had acknowledged {} bytes (ack_nr {})", if reader_eof { "end-of-stream" } else { "error" }, read_total, need, m));
            }
        }
    }
    // with a window-respecting sender the buffered bytes never exceed rx_buf (probe H2)
    if exact {
        for (t, _, x) in w.events() {
            if let X::Snap(s) = x {
                let buffered = s.rx_ooq_bytes + s.rx_queue_bytes;
                if buffered as i64 > rx_buf {
                    res.violate(P, "buffer-exceeds-configured-size", t, format!("{} bytes buffered, configured receive buffer {}", buffered, rx_buf));
                }
            }
        }
    }
    res.probe("endpoint_emissions_checked", emissions);
    res.probe("sack_emitted", sack_emitted);
    res.hit("out_of_order_held", ooo_held);
    res.hit("window_below_buffer", window_below_buf);
    res.hit("fin_delivered_in_sequence", fin_delivered_in_seq);
    res.relevant = ooo_held && emissions > 0;
    res
}
