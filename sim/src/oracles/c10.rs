//! C10 — arbitrary datagrams never crash, wedge or cross-contaminate the socket. A raw attacker
//! sends hostile datagrams (own address, spoofed address of the honest peer, unbound addresses;
//! garbage, truncations, absurd header fields, ACKs of data never sent, selective ACKs of any
//! length, types illegal in the state, unknown ids, ids next to a victim connection) while honest
//! connections run on the same socket.
use std::collections::BTreeMap;

use librqbit_utp::verif::ProbeEvent;

use super::OracleResult;
use crate::{
    analysis::stream_accounts,
    hist::{AppKind, AppRes, Ev, T},
    scenario::Scenario,
    world::RunOutput,
};

pub const P: &str = "C10";
/// Largest datagram the attacker (or anybody) sends in these runs.
const MAX_DGRAM: usize = 1500;

pub fn check(sc: &Scenario, out: &RunOutput) -> OracleResult {
    let mut res = OracleResult::default();
    let h = &out.hist;
    let Some(att) = &sc.attack else {
        res.inconclusive = true;
        return res;
    };
    let direct = att.has_direct_attack();
    let n_real = sc.nodes.len();

    // (1) no panic
    for p in &h.panics {
        if p.contains("/repo/src") || p.contains("librqbit") {
            res.violate(P, "library-panicked", out.t_end, format!("panic inside the library: {}", p));
        }
    }
    // (2) no internal 'bug:' error, anywhere: connection tasks, application-visible errors
    let mut bug_seen: Option<(T, String)> = None;
    let mut dispatcher_dead: Option<(T, String)> = None;
    for (t, ev) in &h.evs {
        match ev {
            Ev::Probe(ProbeEvent::ConnPoll(s)) => {
                if s.finished_bug {
                    bug_seen.get_or_insert((*t, format!("connection {}->{} ended with '{}'", s.key.local, s.key.remote, s.finished.clone().flatten().unwrap_or_default())));
                }
            }
            Ev::App(a) => {
                if let AppRes::Err(e) = &a.res {
                    let el = e.to_lowercase();
                    if el.contains("bug:") || el.contains("bug in ") {
                        bug_seen.get_or_insert((*t, format!("node {} {:?} failed with '{}'", a.node, a.kind, e)));
                    }
                    // (a stream read also says 'dispatcher dead' when its own connection task is
                    // gone; the socket's dispatcher is judged by connect and accept)
                    if el.contains("dispatcher dead") && matches!(a.kind, AppKind::ConnectDone | AppKind::AcceptDone) {
                        dispatcher_dead.get_or_insert((*t, format!("node {} {:?} failed with '{}'", a.node, a.kind, e)));
                    }
                }
            }
            _ => {}
        }
    }
    if let Some((t, m)) = bug_seen {
        res.violate(P, "internal-bug-error-surfaced", t, m);
    }
    if let Some((t, m)) = dispatcher_dead {
        res.violate(P, "socket-dispatcher-died", t, m);
    }

    // (3) what a connection buffers stays bounded by its configured sizes (in messages) times
    // the maximum datagram size; the socket's tables stay bounded
    for (t, ev) in &h.evs {
        match ev {
            Ev::Probe(ProbeEvent::ConnPoll(s)) => {
                let Some(node) = (0..n_real).find(|i| sc.addr(*i) == s.key.local) else { continue };
                let o = &sc.nodes[node].opts;
                let mss = crate::scen_gen::min_payload(o.link_mtu(), sc.nodes[node].ipv6).max(1);
                let slots = o.rx_buf() / mss + 2;
                // in-order queue and reassembly queue: that many messages each
                let bound = 2 * slots * MAX_DGRAM;
                if s.rx_ooq_bytes + s.rx_queue_bytes > bound {
                    res.violate(P, "receive-buffering-unbounded", *t, format!("node {}: connection to {} holds {} + {} received bytes; configured receive buffer {} bytes = {} messages of at most {} bytes each (x2 queues) = {}", node, s.key.remote, s.rx_queue_bytes, s.rx_ooq_bytes, o.rx_buf(), slots, MAX_DGRAM, bound));
                }
                let lim = o.tx_init().max(o.tx_max());
                if s.tx_ring_cap > lim {
                    res.violate(P, "transmit-buffering-unbounded", *t, format!("node {}: transmit ring capacity {} exceeds the configured {}", node, s.tx_ring_cap, lim));
                }
            }
            Ev::Probe(ProbeEvent::Socket(s)) => {
                if s.cached_syns > 32 || s.streams > s.max_streams {
                    res.violate(P, "socket-table-unbounded", *t, format!("{}: streams {} (limit {}), cached SYNs {} (limit 32)", s.local, s.streams, s.max_streams, s.cached_syns));
                }
            }
            _ => {}
        }
    }

    // (4) the honest connections on the attacked socket are not disturbed (unless the attacker
    // spoofed the honest peer's address AND named exactly its connection id: that is an attack
    // on that connection itself); that includes the connect/accept service after the attack
    let accts = stream_accounts(sc, h);
    let b_acc = sc.param("acceptor_bytes").unwrap_or(0) as u64;
    let mut errs: BTreeMap<(usize, usize), (T, String)> = BTreeMap::new();
    let mut connect_res: BTreeMap<usize, (T, Result<(), String>)> = BTreeMap::new();
    let mut paired: BTreeMap<usize, usize> = BTreeMap::new();
    for (t, a) in h.apps() {
        match (&a.kind, &a.res) {
            (AppKind::Read { .. } | AppKind::Write { .. } | AppKind::Flush | AppKind::Shutdown, AppRes::Err(e)) if a.conn < 1000 => {
                errs.entry((a.conn, a.node)).or_insert((t, e.clone()));
            }
            (AppKind::ConnectDone, AppRes::Ok(_)) => {
                connect_res.insert(a.conn, (t, Ok(())));
            }
            (AppKind::ConnectDone, AppRes::Err(e)) => {
                connect_res.insert(a.conn, (t, Err(e.clone())));
            }
            (AppKind::Note(n), AppRes::Ok(k)) if n.contains(" paired with connect ") => {
                paired.insert(*k, a.conn - 1000);
            }
            _ => {}
        }
    }
    // An honest SYN whose receive key (peer address, id + 1) is, at the instant it arrives, the
    // key of a live connection between the same two honest sockets (both ends picked adjacent
    // ids independently): that is a clash among the honest parties themselves, the SYN is
    // dropped and never retried. Not the hostile traffic's doing: such a connect is not judged.
    let mut own_clash: std::collections::BTreeSet<usize> = Default::default();
    let mut named_directly: std::collections::BTreeSet<usize> = Default::default();
    let mut syn_id: BTreeMap<usize, u16> = BTreeMap::new();
    {
        let mut live: std::collections::HashMap<(std::net::SocketAddr, std::net::SocketAddr, u16), u16> = Default::default();
        let mut syn_ords: std::collections::HashMap<u64, usize> = Default::default();
        let mut starts: BTreeMap<usize, T> = BTreeMap::new();
        for (t, a) in h.apps() {
            if matches!(a.kind, AppKind::ConnectStart) {
                starts.insert(a.conn, t);
            }
        }
        for (t, ev) in &h.evs {
            match ev {
                Ev::Probe(ProbeEvent::ConnRecvId { key, conn_id_recv }) => {
                    live.insert((key.local, key.remote, key.conn_id_send), *conn_id_recv);
                }
                Ev::Probe(ProbeEvent::ConnDropped(key)) => {
                    live.remove(&(key.local, key.remote, key.conn_id_send));
                }
                Ev::Emit(e) if e.real => {
                    if let Some(p) = e.pkt.as_ref().filter(|p| p.typ == crate::codec::ST_SYN) {
                        // (one SYN per connect call, never retried; a refused send is repeated a
                        // little later: the earliest started connect that has no SYN yet)
                        let cand = sc.connects.iter().enumerate().filter(|(k, c)| c.node < n_real && c.to < n_real && sc.addr(c.node) == e.src && sc.addr(c.to) == e.dst && starts.get(k).is_some_and(|s| s <= t) && !syn_id.contains_key(k)).min_by_key(|(k, _)| starts[k]);
                        if let Some((k, _)) = cand {
                            syn_ords.insert(e.ord, k);
                            syn_id.insert(k, p.conn_id);
                        }
                    }
                }
                Ev::Deliver(d) => {
                    if let (Some(k), Some(p)) = (syn_ords.get(&d.ord), d.pkt.as_ref()) {
                        let want = p.conn_id.wrapping_add(1);
                        if live.iter().any(|((local, remote, _), recv)| *local == d.dst && *remote == d.src && *recv == want) {
                            own_clash.insert(*k);
                        }
                    }
                }
                _ => {}
            }
        }
        // A datagram forged with one honest party's address that names (by design or by the
        // luck of a random number) one of the two ids of their connection is an attack on that
        // very connection: "the worst a peer can do is break its own connection" is about the
        // others.
        for (_, ev) in &h.evs {
            if let Ev::Emit(e) = ev {
                if e.real {
                    continue;
                }
                let Some(p) = e.pkt.as_ref() else { continue };
                for (k, c) in sc.connects.iter().enumerate() {
                    let Some(x) = syn_id.get(&k) else { continue };
                    let (a, b) = (sc.addr(c.node), sc.addr(c.to));
                    if ((e.src == a && e.dst == b) || (e.src == b && e.dst == a)) && (p.conn_id == *x || p.conn_id == x.wrapping_add(1)) {
                        named_directly.insert(k);
                    }
                }
            }
        }
    }
    res.probe("honest_id_clashes_not_judged", own_clash.len() as u64);
    res.probe("honest_connections_named_directly_not_judged", named_directly.len() as u64);
    let mut content_failed: std::collections::BTreeSet<usize> = Default::default();
    let c01 = super::c01::check(sc, out);
    for mut v in c01.violations {
        // only streams of honest connections count (the attacker's own stream is its business)
        let honest = v.msg.strip_prefix("conn ").and_then(|s| s.split(' ').next()).and_then(|k| k.parse::<usize>().ok()).is_some_and(|k| sc.connects[k].node < n_real && !named_directly.contains(&k) && !own_clash.contains(&k));
        if !honest || direct {
            continue;
        }
        // (one failure, one report: the conversation clause below does not repeat it)
        if let Some(k) = v.msg.strip_prefix("conn ").and_then(|s| s.split(' ').next()).and_then(|k| k.parse::<usize>().ok()) {
            content_failed.insert(k);
        }
        v.property = P;
        v.tag = match v.tag {
            "content-mismatch" => "honest-stream-carries-foreign-bytes",
            "read-more-than-written" => "honest-stream-read-more-than-written",
            t => t,
        };
        res.violations.push(v);
    }
    // the honest conversation is judged as the generator wrote it (token, answer, closing calls)
    let scripts_as_generated = sc.param("app_scripts_hash").is_none_or(|h| h == sc.app_scripts_hash());
    let mut honest_ok = 0u64;
    for (k, c) in sc.connects.iter().enumerate() {
        if c.node >= n_real || direct || own_clash.contains(&k) || named_directly.contains(&k) || !scripts_as_generated || content_failed.contains(&k) {
            continue;
        }
        let n_conn = match c.side.w.first() {
            Some(crate::scenario::WOp::Write { n, .. }) => *n,
            _ => 0,
        };
        // (the first 8 bytes a connector writes identify its stream at the accepting side: a
        // script without them - only a minimiser produces one - cannot be judged)
        // (likewise both applications must close their streams: without the closing calls a
        // connection idles into its inactivity time-out, which is nobody's fault)
        let closes = |w: &Vec<crate::scenario::WOp>| w.iter().any(|o| matches!(o, crate::scenario::WOp::Shutdown));
        let answers = |w: &Vec<crate::scenario::WOp>| b_acc == 0 || matches!(w.first(), Some(crate::scenario::WOp::Write { n, .. }) if *n == b_acc);
        if n_conn < 8 || !closes(&c.side.w) || !sc.accepts.iter().filter(|a| a.node == c.to).all(|a| closes(&a.side.w) && answers(&a.side.w)) {
            continue;
        }
        let a_fwd = accts.get(&(k, c.node)).cloned().unwrap_or_default();
        let a_rev = accts.get(&(k, c.to)).cloned().unwrap_or_default();
        let fwd_ok = a_fwd.written == n_conn && a_fwd.read + 8 == n_conn && a_fwd.eof.is_some();
        let rev_ok = a_rev.written == b_acc && a_rev.read == b_acc;
        let err = errs.get(&(k, c.node)).or_else(|| errs.get(&(k, c.to)));
        let conn_ok = matches!(connect_res.get(&k), Some((_, Ok(()))));
        if conn_ok && paired.contains_key(&k) && fwd_ok && rev_ok && err.is_none() {
            honest_ok += 1;
        } else {
            let t = err.map(|e| e.0).or(connect_res.get(&k).map(|c| c.0)).unwrap_or(out.t_end);
            // context for F31: one end of this connection had a send refused (socket full) and
            // was not polled again when the socket became writable (its wake-up went to another
            // connection of the same socket)
            let lost_wakeup = syn_id.get(&k).is_some_and(|x| {
                let ends = [(sc.addr(c.node), x.wrapping_add(1)), (sc.addr(c.to), *x)];
                ends.iter().any(|(local, send_id)| send_wakeup_lost(h, *local, *send_id, t))
            });
            let n_before = res.violations.len();
            res.violate(
                P,
                if k == 0 { "honest-connection-disturbed" } else { "connect-accept-service-disturbed" },
                t,
                format!(
                    "honest connect {} (node {} -> node {}, started at {} ms; hostile traffic never named its id from its peer's address): connect result {:?}, surfaced at accept {:?}; connector stream written {} / read {}+8 of {} eof={:?}; acceptor stream written {} / read {} of {}; first failing call {:?}",
                    k, c.node, c.to, c.at_ms, connect_res.get(&k).map(|c| &c.1), paired.get(&k), a_fwd.written, a_fwd.read, n_conn, a_fwd.eof.map(crate::hist::fmt_t), a_rev.written, a_rev.read, b_acc, err
                ),
            );
            if lost_wakeup && res.violations.len() > n_before {
                res.violations.last_mut().unwrap().aux = Some(31);
            }
        }
    }

    // reach probes
    let mut verdict_rej = 0u64;
    let mut verdict_acc = 0u64;
    let t_addr = sc.addr(att.target);
    for (_, ev) in &h.evs {
        if let Ev::Probe(ProbeEvent::Parsed { local, accepted, .. }) = ev {
            if *local == t_addr {
                if *accepted {
                    verdict_acc += 1;
                } else {
                    verdict_rej += 1;
                }
            }
        }
    }
    let hostile = h.fault_counts.get("hostile_datagram").copied().unwrap_or(0);
    res.probe("hostile_datagrams_sent", hostile);
    res.probe("target_parser_rejections", verdict_rej);
    res.probe("target_parser_acceptances", verdict_acc);
    res.probe("honest_connections_completed", honest_ok);
    res.hit("attacker_connection_established", att.own.is_some() && h.evs.iter().any(|(_, ev)| matches!(ev, Ev::Probe(ProbeEvent::ConnCreated(k)) if k.local == t_addr && k.remote == sc.addr(att.idx))));
    res.hit("direct_attack_on_honest_connection", direct);
    res.relevant = hostile > 0;
    res
}


/// A send of the connection (`local`, send id) was refused with 'pending' before `until`, and
/// the connection was not polled within the next 3 ms although the socket becomes writable
/// within one: the wake-up was lost (the socket keeps one send waker; another connection of the
/// same socket registered its own in the meantime).
pub fn send_wakeup_lost(h: &crate::hist::History, local: std::net::SocketAddr, send_id: u16, until: T) -> bool {
    let mut fails: Vec<T> = vec![];
    let mut polls: Vec<T> = vec![];
    for (t, ev) in &h.evs {
        match ev {
            Ev::SendFail { src, kind, pkt: Some(p), .. } if *src == local && *kind == "pending" && p.conn_id == send_id && *t <= until => fails.push(*t),
            Ev::Probe(ProbeEvent::ConnPoll(s)) if s.key.local == local && s.key.conn_id_send == send_id => polls.push(*t),
            Ev::Probe(ProbeEvent::ConnDropped(k)) if k.local == local && k.conn_id_send == send_id => polls.push(*t),
            _ => {}
        }
    }
    fails.iter().any(|tf| !polls.iter().any(|tp| *tp > *tf && *tp <= *tf + 3 * crate::hist::MS))
}
