//! C05 — the sender obeys the peer's advertised window and slow-start growth. Scripted peer as
//! receiver producing arbitrary ACK/window histories.
use std::collections::BTreeMap;

use librqbit_utp::verif::{CcCall, ProbeEvent};

use super::{
    pw::{covers, PeerWorld, X},
    OracleResult,
};
use crate::{codec, hist::T, scenario::Scenario, util::seq_diff, world::RunOutput};

pub const P: &str = "C05";

pub fn check(sc: &Scenario, out: &RunOutput) -> OracleResult {
    let mut res = OracleResult::default();
    let Some(w) = PeerWorld::new(sc, out) else {
        res.inconclusive = true;
        return res;
    };
    let evs = w.events_effective();
    // E's data: seq -> (len of the last emission, acked?)
    let mut sent: BTreeMap<u16, (usize, bool)> = BTreeMap::new();
    let mut outstanding: i64 = 0;
    let mut acked_bytes: i64 = 0;
    let mut largest_payload: i64 = 0;
    // windows: the one delivered strictly before the current instant, and those delivered at it
    let mut wnd_prev: Option<u32> = None;
    let mut wnd_now: Vec<u32> = vec![];
    let mut t_now: T = 0;
    let mut zero_window_since: Option<T> = None; // last delivered window is zero
    let mut first_loss_seen = false;
    let mut in_recovery = false;
    let mut rto_mode = 0usize;
    // after an RTO event: Some(seq that may be retransmitted) until an ACK for new data arrives
    let mut after_rto: Option<u16> = None;
    let mut new_data_acked_since_rto = false;
    let mut window_limited = 0u64;
    let mut first_tx = 0u64;
    let mut rto_events = 0u64;
    let mut hostile = false; // peer acknowledged data that was never sent: no verdict afterwards
    let mut next_unsent: Option<u16> = w.e_first_seq;
    let mut zero_windows = 0u64;

    // polls in which the retransmission timer expired (rto_retransmissions stepped): what is
    // sent there is timeout processing, not ordinary sending
    let mut rto_poll = vec![false; evs.len()];
    {
        let mut last_n = 0usize;
        let mut start = 0usize;
        for (i, (_, _, x)) in evs.iter().enumerate() {
            if let X::Snap(s) = x {
                if s.rto_retransmissions > last_n {
                    for f in rto_poll.iter_mut().take(i + 1).skip(start) {
                        *f = true;
                    }
                }
                last_n = s.rto_retransmissions;
                start = i + 1;
            }
        }
    }

    // state at the end of the poll each event belongs to (a poll that enters loss recovery
    // retransmits and may send new data under the recovery rules within that same poll)
    let mut rec_poll = vec![false; evs.len()];
    {
        let mut start = 0usize;
        for (i, (_, _, x)) in evs.iter().enumerate() {
            if let X::Snap(s) = x {
                if s.recovering || s.rto_retransmissions > 0 {
                    for f in rec_poll.iter_mut().take(i + 1).skip(start) {
                        *f = true;
                    }
                }
                start = i + 1;
            }
        }
    }

    for (i, (t, _, x)) in evs.iter().enumerate() {
        let t = *t;
        if t != t_now {
            if let Some(l) = wnd_now.last() {
                wnd_prev = Some(*l);
            }
            wnd_now.clear();
            t_now = t;
        }
        match x {
            X::DelivE(p, d) => {
                if d.corrupted || p.typ == codec::ST_SYN || p.typ == codec::ST_RESET {
                    continue;
                }
                // (an out-of-sequence FIN is dropped whole by the endpoint: its window does not count;
                // scripted receivers only send a FIN at the proper number)
                wnd_now.push(p.wnd);
                if p.wnd == 0 {
                    if zero_window_since.is_none() {
                        zero_windows += 1;
                    }
                    zero_window_since.get_or_insert(t);
                } else {
                    zero_window_since = None;
                }
                if let Some(n) = next_unsent {
                    if seq_diff(p.ack, n) >= 0 {
                        hostile = true;
                    }
                    if let Some(bits) = p.sack_bits() {
                        for (i, b) in bits.iter().enumerate() {
                            if *b && seq_diff(p.ack.wrapping_add(2).wrapping_add(i as u16), n) >= 0 {
                                hostile = true;
                            }
                        }
                    }
                }
                let mut newly = 0i64;
                for (s, (l, a)) in sent.iter_mut() {
                    if !*a && covers(p, *s) {
                        *a = true;
                        newly += *l as i64;
                    }
                }
                if newly > 0 {
                    outstanding -= newly;
                    acked_bytes += newly;
                    new_data_acked_since_rto = true;
                }
            }
            X::Snap(s) => {
                in_recovery = s.recovering;
                rto_mode = s.rto_retransmissions;
            }
            X::Probe(ProbeEvent::Cc { key, call: CcCall::OnEnterRecovery, .. }) => {
                if key.is_some_and(|k| k.local == w.e) {
                    // duplicate acknowledgements / SACK evidence: a loss event
                    first_loss_seen = true;
                }
            }
            X::Probe(ProbeEvent::Cc { key, call: CcCall::OnRto, .. }) => {
                if key.is_some_and(|k| k.local == w.e) {
                    rto_events += 1;
                    first_loss_seen = true;
                    // the segment being retransmitted is the first un-acked one
                    after_rto = sent.iter().filter(|(_, (_, a))| !*a).map(|(s, _)| *s).min_by_key(|s| seq_diff(*s, w.e_first_seq.unwrap_or(*s)));
                    new_data_acked_since_rto = false;
                }
            }
            X::EmitE(p, _) => {
                if p.typ != codec::ST_DATA {
                    continue;
                }
                let len = p.payload.len();
                let prev = sent.get(&p.seq).copied();
                let is_first = match prev {
                    None => true,
                    Some((l, _)) if l != len => {
                        // re-segmentation (popped probe): adjust the books, not a "new" send
                        if !prev.unwrap().1 {
                            outstanding += len as i64 - l as i64;
                        }
                        sent.insert(p.seq, (len, prev.unwrap().1));
                        first_loss_seen = true;
                        false
                    }
                    Some(_) => false,
                };
                if !is_first {
                    first_loss_seen = true;
                    continue;
                }
                first_tx += 1;
                sent.insert(p.seq, (len, false));
                outstanding += len as i64;
                largest_payload = largest_payload.max(len as i64);
                if next_unsent.is_none_or(|n| seq_diff(p.seq, n) >= 0) {
                    next_unsent = Some(p.seq.wrapping_add(1));
                }
                if hostile {
                    continue;
                }
                // --- after an RTO: a single segment until new data is acknowledged ---------
                if let Some(rs) = after_rto {
                    if !new_data_acked_since_rto {
                        res.violate(P, "new-data-after-rto-before-ack", t, format!("first transmission of seq {} (len {}) after a retransmission timeout for seq {} and before any new data was acknowledged", p.seq, len, rs));
                    } else {
                        after_rto = None;
                    }
                }
                // --- window rules: outside loss recovery only ---------------------------------
                if rto_poll[i] && !in_recovery {
                    // the retransmission timer fired in this poll and what it "retransmitted" was
                    // never sent before: new payload, subject to the same window rules
                    let mut allowed: Option<u32> = wnd_prev;
                    for wv in &wnd_now {
                        allowed = Some(allowed.map_or(*wv, |a| a.max(*wv)));
                    }
                    if let Some(a) = allowed {
                        if a == 0 {
                            res.violate(P, "timer-sends-new-payload-into-zero-window", t, format!("the retransmission timer fired with nothing in flight and seq {} (len {}), never sent before, was transmitted although the last advertised window is zero (since {:?})", p.seq, len, zero_window_since.map(crate::hist::fmt_t)));
                        } else if outstanding > a as i64 {
                            res.violate(P, "timer-sends-new-payload-beyond-window", t, format!("the retransmission timer fired and seq {} (len {}), never sent before, was transmitted: {} bytes outstanding, window most recently advertised {}", p.seq, len, outstanding, a));
                        }
                    }
                    continue;
                }
                if in_recovery || rto_mode > 0 || rec_poll[i] {
                    continue;
                }
                // the window most recently advertised: delivered strictly before now, or at this
                // very instant (either order accepted when they coincide)
                let mut allowed: Option<u32> = wnd_prev;
                for wv in &wnd_now {
                    allowed = Some(allowed.map_or(*wv, |a| a.max(*wv)));
                }
                if let Some(a) = allowed {
                    if outstanding > a as i64 {
                        res.violate(P, "exceeds-advertised-window", t, format!("after the first transmission of seq {} (len {}) {} bytes are outstanding; the window most recently advertised was {} (before this instant: {:?}, at it: {:?})", p.seq, len, outstanding, a, wnd_prev, wnd_now));
                    }
                    if outstanding + (len as i64) > a as i64 {
                        window_limited += 1;
                    }
                    if a == 0 {
                        res.violate(P, "new-payload-into-zero-window", t, format!("first transmission of seq {} (len {}) although the last advertised window is zero (since {:?})", p.seq, len, zero_window_since.map(crate::hist::fmt_t)));
                    }
                }
                // --- slow start before the first loss event --------------------------------------
                if !first_loss_seen {
                    // two segments of the sender's segment size (at least the smallest segment
                    // size of the link, whatever the window lets it cut)
                    let seg = largest_payload.max(w.mss_floor as i64);
                    let bound = 2 * seg + acked_bytes;
                    if outstanding > bound {
                        res.violate(P, "slow-start-exceeded", t, format!("before any loss {} bytes are outstanding after sending seq {}; two segments ({} each) plus {} acknowledged bytes allow {}", outstanding, p.seq, seg, acked_bytes, bound));
                    }
                }
            }
            _ => {}
        }
    }
    res.probe("first_transmissions_checked", first_tx);
    res.probe("sends_that_filled_the_window", window_limited);
    res.probe("rto_events", rto_events);
    res.probe("zero_windows_delivered", zero_windows);
    res.relevant = window_limited > 0;
    res
}
