//! Shared view of a scripted-peer run: the real endpoint E (node 0) against the scripted peer P.
use std::{net::SocketAddr, sync::Arc};

use librqbit_utp::verif::{ConnSnapshot, ProbeEvent};

use crate::{
    codec::{self, Pkt},
    hist::{AppEv, Ev, History, T},
    peer::{PeerRole, PeerScript},
    scen_gen::min_payload,
    scenario::Scenario,
    util::seq_le,
    world::RunOutput,
};

pub enum X<'a> {
    /// E handed a datagram of the connection to the transport.
    EmitE(&'a Arc<Pkt>, &'a crate::hist::Emit),
    /// A datagram of the connection from P was delivered to E's socket.
    DelivE(&'a Arc<Pkt>, &'a crate::hist::Deliver),
    /// P emitted (diagnostic).
    EmitP(&'a Arc<Pkt>),
    App(&'a AppEv),
    Snap(&'a ConnSnapshot),
    Probe(&'a ProbeEvent),
    Fault(&'a str),
}

pub struct PeerWorld<'a> {
    pub sc: &'a Scenario,
    pub h: &'a History,
    pub script: &'a PeerScript,
    pub e: SocketAddr,
    pub p: SocketAddr,
    /// E's first data sequence number (known once the handshake was seen on the wire).
    pub e_first_seq: Option<u16>,
    /// connection id E sends with
    pub e_id_send: Option<u16>,
    pub ipv6: bool,
    pub link: usize,
    pub mss_floor: usize,
}

impl<'a> PeerWorld<'a> {
    pub fn new(sc: &'a Scenario, out: &'a RunOutput) -> Option<PeerWorld<'a>> {
        let script = sc.peer.as_ref()?;
        let h = &out.hist;
        let e = sc.addr(0);
        let p = sc.addr(1);
        let ipv6 = sc.nodes[0].ipv6;
        let link = sc.nodes[0].opts.link_mtu();
        let mut e_first_seq = None;
        let mut e_id_send = None;
        for (_, em) in h.emits() {
            if em.src != e || em.dst != p {
                continue;
            }
            let Some(pk) = &em.pkt else { continue };
            match script.role {
                PeerRole::Connector => {
                    if pk.typ == codec::ST_STATE && pk.conn_id == script.conn_id && pk.ack == script.isn {
                        e_first_seq = Some(pk.seq);
                        e_id_send = Some(pk.conn_id);
                        break;
                    }
                }
                PeerRole::Acceptor => {
                    if pk.typ == codec::ST_SYN {
                        e_first_seq = Some(pk.seq.wrapping_add(1));
                        e_id_send = Some(pk.conn_id.wrapping_add(1));
                        break;
                    }
                }
            }
        }
        // the oracles key their books by 16-bit sequence number: a run whose endpoint walked
        // more than a third of the sequence space is not judged (the generators keep runs far
        // below this; only degenerate one- or two-byte-segment runs get here)
        if let Some(f) = e_first_seq {
            let far = h
                .emits()
                .filter(|(_, em)| em.src == e && em.dst == p)
                .filter_map(|(_, em)| em.pkt.as_ref())
                .filter(|pk| pk.typ == codec::ST_DATA)
                .map(|pk| pk.seq.wrapping_sub(f))
                .max()
                .unwrap_or(0);
            if far > 20_000 {
                return None;
            }
        }
        Some(PeerWorld { sc, h, script, e, p, e_first_seq, e_id_send, ipv6, link, mss_floor: min_payload(link, ipv6) })
    }

    /// Connection id P sends with (= the id E receives on).
    pub fn p_id_send(&self) -> Option<u16> {
        match self.script.role {
            PeerRole::Connector => Some(self.script.conn_id.wrapping_add(1)),
            PeerRole::Acceptor => self.e_id_send.map(|i| i.wrapping_sub(1)),
        }
    }

    /// Events of the connection in global order with their index.
    pub fn events(&self) -> Vec<(T, usize, X<'a>)> {
        let mut v = vec![];
        let pid = self.p_id_send();
        for (idx, (t, ev)) in self.h.evs.iter().enumerate() {
            match ev {
                Ev::Emit(em) if em.src == self.e && em.dst == self.p => {
                    if let Some(pk) = &em.pkt {
                        v.push((*t, idx, X::EmitE(pk, em)));
                    }
                }
                Ev::Emit(em) if em.src == self.p && em.dst == self.e => {
                    if let Some(pk) = &em.pkt {
                        v.push((*t, idx, X::EmitP(pk)));
                    }
                }
                Ev::Deliver(d) if d.dst == self.e && d.src == self.p => {
                    if let Some(pk) = &d.pkt {
                        // only what reaches the connection (right id) or the SYN
                        if pk.typ == codec::ST_SYN || Some(pk.conn_id) == pid || pid.is_none() {
                            v.push((*t, idx, X::DelivE(pk, d)));
                        }
                    }
                }
                Ev::App(a) => v.push((*t, idx, X::App(a))),
                Ev::Probe(ProbeEvent::ConnPoll(s)) if s.key.local == self.e => v.push((*t, idx, X::Snap(s))),
                Ev::Probe(pr) => v.push((*t, idx, X::Probe(pr))),
                Ev::Fault(s) => v.push((*t, idx, X::Fault(s))),
                _ => {}
            }
        }
        v
    }
}

impl<'a> PeerWorld<'a> {
    /// `events()` without the peer's FINs that arrive out of sequence: the endpoint drops such a
    /// datagram whole (its acknowledgement number, window and selective ACK included), so the
    /// sender-side oracles must not count what it carried. The in-sequence number comes from a
    /// receiver model over the peer's delivered data packets.
    pub fn events_effective(&self) -> Vec<(T, usize, X<'a>)> {
        let first = self.script.pkt_seq(0);
        let mut cum = first.wrapping_sub(1);
        let mut got: std::collections::BTreeSet<u16> = Default::default();
        let mut out = vec![];
        for ev in self.events() {
            if let X::DelivE(p, d) = &ev.2 {
                if !d.corrupted {
                    match p.typ {
                        codec::ST_DATA => {
                            let dd = crate::util::seq_diff(p.seq, cum);
                            if dd >= 1 && dd < 4096 {
                                got.insert(p.seq);
                                while got.remove(&cum.wrapping_add(1)) {
                                    cum = cum.wrapping_add(1);
                                }
                            }
                        }
                        codec::ST_FIN => {
                            if p.seq != cum.wrapping_add(1) {
                                continue;
                            }
                        }
                        _ => {}
                    }
                }
            }
            out.push(ev);
        }
        out
    }
}

pub fn covers(p: &Pkt, seq: u16) -> bool {
    if seq_le(seq, p.ack) {
        return true;
    }
    if let Some(bits) = p.sack_bits() {
        let i = seq.wrapping_sub(p.ack).wrapping_sub(2) as usize;
        if i < bits.len() && bits[i] {
            return true;
        }
    }
    false
}
