//! C14 — path-MTU discovery is safe and converges.
use std::collections::HashMap;

use super::OracleResult;
use crate::{
    analysis::{endpoint_views, ConnTable, FlowEv},
    codec,
    scen_gen::{max_payload, min_payload},
    scenario::Scenario,
    util::seq_le,
    world::RunOutput,
};

pub const P: &str = "C14";

pub fn acked_by(p: &codec::Pkt, seq: u16) -> bool {
    if seq_le(seq, p.ack) {
        return true;
    }
    if let Some(bits) = p.sack_bits() {
        let i = seq.wrapping_sub(p.ack).wrapping_sub(2) as usize;
        if i < bits.len() && bits[i] {
            return true;
        }
    }
    false
}

pub fn node_of(sc: &Scenario, addr: std::net::SocketAddr) -> Option<usize> {
    (0..sc.nodes.len()).find(|i| sc.addr(*i) == addr)
}

pub fn check(sc: &Scenario, out: &RunOutput) -> OracleResult {
    let mut res = OracleResult::default();
    let h = &out.hist;
    let ct = ConnTable::build(h);
    if ct.ambiguous {
        res.inconclusive = true;
        return res;
    }
    let mut probes_ok = 0u64;
    let mut probes_failed = 0u64;
    // (1) size of every emitted datagram vs configured link MTU
    for (t, e) in h.emits() {
        if !e.real {
            continue;
        }
        let Some(n) = node_of(sc, e.src) else { continue };
        let ipv6 = sc.nodes[n].ipv6;
        // The smallest datagram that can carry one payload byte is always allowed.
        let link = sc.nodes[n].opts.link_mtu().max(if ipv6 { 69 } else { 49 });
        if e.ip_size > link {
            res.violate(P, "exceeds-link-mtu", t, format!("node {} (link MTU {}) emitted a datagram of IP size {} ({})", n, link, e.ip_size, e.pkt.as_ref().map(|p| p.short()).unwrap_or_default()));
        }
    }
    // (1') a probe is given up only when the retransmission timer expires; an acknowledgement of
    // new data restarts that timer. So the poll that handles such an acknowledgement cannot be
    // the one that declares the probe failed (seen as the search's upper bound dropping between
    // two end-of-poll snapshots) - unless the send itself was refused as too big.
    {
        use crate::hist::Ev;
        use librqbit_utp::verif::ProbeEvent;
        type K = (std::net::SocketAddr, std::net::SocketAddr, u16);
        let mut prev: HashMap<K, (u16, u16)> = HashMap::new(); // key -> (max_ss, last_sent_seq_nr)
        let mut max_ack: HashMap<(std::net::SocketAddr, std::net::SocketAddr), u16> = HashMap::new(); // (from, to) -> highest ack seen
        // new-data ACKs delivered since the connection's previous snapshot: (to, from) -> instants
        let mut fresh_acks: HashMap<(std::net::SocketAddr, std::net::SocketAddr), Vec<u64>> = HashMap::new();
        let mut emsgsize_at: HashMap<std::net::SocketAddr, u64> = HashMap::new();
        for (t, ev) in &h.evs {
            match ev {
                Ev::Deliver(d) if !d.corrupted && d.to_real => {
                    if let Some(p) = &d.pkt {
                        if p.typ != codec::ST_SYN {
                            let e = max_ack.entry((d.src, d.dst));
                            let newer = match &e {
                                std::collections::hash_map::Entry::Occupied(o) => crate::util::seq_diff(p.ack, *o.get()) > 0,
                                std::collections::hash_map::Entry::Vacant(_) => false,
                            };
                            let slot = e.or_insert(p.ack);
                            if newer {
                                *slot = p.ack;
                                fresh_acks.entry((d.dst, d.src)).or_default().push(*t);
                            }
                        }
                    }
                }
                Ev::SendFail { src, kind, .. } if *kind == "EMSGSIZE" => {
                    emsgsize_at.insert(*src, *t);
                }
                Ev::Probe(ProbeEvent::ConnPoll(sn)) => {
                    let k: K = (sn.key.local, sn.key.remote, sn.key.conn_id_send);
                    let acks = fresh_acks.remove(&(sn.key.local, sn.key.remote)).unwrap_or_default();
                    if let Some((pm, pl)) = prev.get(&k) {
                        let gave_up = sn.max_ss < *pm;
                        if gave_up && acks.iter().any(|ta| *ta == *t) && emsgsize_at.get(&sn.key.local) != Some(t) && sn.finished.is_none() && sc.nodes.len() == 2 {
                            res.violate(P, "probe-given-up-in-the-poll-that-restarted-the-timer", *t, format!("{} -> {}: the largest segment size dropped from {} to {} (send position {} -> {}: an MTU probe was declared lost) in the poll that handled an acknowledgement of new data delivered at this instant; that acknowledgement restarts the retransmission timer, whose expiry is the only sign of a lost probe", sn.key.local, sn.key.remote, pm, sn.max_ss, pl, sn.last_sent_seq_nr));
                        }
                    }
                    prev.insert(k, (sn.max_ss, sn.last_sent_seq_nr));
                }
                _ => {}
            }
        }
    }
    // (2) probe discipline per real endpoint
    for v in endpoint_views(h, &ct) {
        let Some(n) = node_of(sc, v.me) else { continue };
        let ipv6 = sc.nodes[n].ipv6;
        let link = sc.nodes[n].opts.link_mtu();
        let mut proven = min_payload(link, ipv6);
        let floor = proven;
        // seq -> (max emitted len, last emitted len, acked)
        let mut sent: HashMap<u16, (usize, usize, bool)> = HashMap::new();
        let mut outstanding_probe: Option<(u16, usize)> = None;
        let mut first_tx_sizes: Vec<(usize, bool)> = vec![]; // (len, was_probe)
        let mut probe_sizes: Vec<usize> = vec![];
        for (t, _, ev) in &v.evs {
            match ev {
                FlowEv::Deliver(d) => {
                    let Some(p) = &d.pkt else { continue };
                    if d.corrupted {
                        continue;
                    }
                    if p.typ == codec::ST_DATA {
                        proven = proven.max(p.payload.len());
                    }
                    if p.typ == codec::ST_SYN {
                        continue;
                    }
                    for (seq, (maxlen, _, acked)) in sent.iter_mut() {
                        if !*acked && acked_by(p, *seq) {
                            *acked = true;
                            proven = proven.max(*maxlen);
                            if outstanding_probe.is_some_and(|(s, _)| s == *seq) {
                                outstanding_probe = None;
                                probes_ok += 1;
                            }
                        }
                    }
                }
                FlowEv::Emit(e) => {
                    let Some(p) = &e.pkt else { continue };
                    if p.typ != codec::ST_DATA {
                        continue;
                    }
                    let len = p.payload.len();
                    let prev = sent.get(&p.seq).copied();
                    let first = match prev {
                        None => true,
                        Some((_, last, _)) if last != len => {
                            // re-segmentation: the probe (if it was one) has failed
                            if outstanding_probe.is_some_and(|(s, _)| s == p.seq) {
                                outstanding_probe = None;
                                probes_failed += 1;
                            }
                            true
                        }
                        Some(_) => false,
                    };
                    // A size that has meanwhile been proven by other evidence is no longer oversized.
                    if outstanding_probe.is_some_and(|(_, l)| l <= proven) {
                        outstanding_probe = None;
                    }
                    if first {
                        if let Some((ps, pl)) = outstanding_probe {
                            if ps != p.seq {
                                res.violate(
                                    P,
                                    "sent-past-outstanding-probe",
                                    *t,
                                    format!("node {}: first transmission of seq {} (len {}) while probe seq {} (len {} > proven {}) is un-acked", n, p.seq, len, ps, pl, proven),
                                );
                            }
                        }
                        let is_probe = len > proven;
                        if is_probe {
                            if outstanding_probe.is_some() {
                                res.violate(P, "two-probes-outstanding", *t, format!("node {}: probe seq {} len {} while another probe is outstanding", n, p.seq, len));
                            }
                            outstanding_probe = Some((p.seq, len));
                            probe_sizes.push(len);
                        }
                        first_tx_sizes.push((len, is_probe));
                        let e = sent.entry(p.seq).or_insert((0, 0, false));
                        e.0 = e.0.max(len);
                        e.1 = len;
                    }
                }
            }
        }
        // (4) convergence (only in the dedicated family, where it is decidable)
        if sc.param("c14_converge") == Some(1) {
            let path_ip = [sc.net.blackhole_ip, sc.net.emsgsize_ip, Some(link)].into_iter().flatten().min().unwrap();
            let fit = max_payload(path_ip, ipv6).max(floor).min(max_payload(link, ipv6));
            let n_seg = first_tx_sizes.len();
            // (a probe is cut from bytes the application has buffered beyond what is in flight:
            // a transmit buffer that cannot hold a segment in flight plus a larger probe never
            // gets to probe again - a limit of the configuration, not of the discovery)
            // (the capacity the ring had while data was buffered - it grows only under conditions
            // of its own, possibly late: the smallest one seen decides, the whole transfer
            // must have had room to probe)
            let ring_cap = h
                .probes()
                .filter_map(|(_, p)| if let librqbit_utp::verif::ProbeEvent::ConnPoll(s) = p { (s.key.local == v.me && s.tx_ring_len > 0).then_some(s.tx_ring_cap) } else { None })
                .min()
                .unwrap_or(0);
            let ring_ok = ring_cap >= 2 * fit + floor;
            if n_seg >= 200 && ring_ok {
                let tail_max = first_tx_sizes[n_seg - 40..].iter().filter(|(_, probe)| !*probe).map(|(l, _)| *l).max().unwrap_or(0);
                if tail_max != fit {
                    res.violate(P, "did-not-converge", out.t_end, format!("node {}: after {} segments the largest ordinary payload among the last 40 is {} but the largest that fits is {} (path IP limit {}, link {})", n, n_seg, tail_max, fit, path_ip, link));
                }
                let mut distinct = probe_sizes.clone();
                distinct.sort();
                distinct.dedup();
                let span = (max_payload(link, ipv6) - floor).max(1) as f64;
                let bound = span.log2().ceil() as usize + 2;
                if distinct.len() > bound {
                    res.violate(P, "too-many-probes", out.t_end, format!("node {}: {} distinct probe sizes {:?}, bound {} for span {}", n, distinct.len(), distinct, bound, span));
                }
                res.hit("converged_transfers", true);
            }
        }
    }
    res.probe("probes_acked", probes_ok);
    res.probe("probes_failed_and_resegmented", probes_failed);
    res.relevant = probes_ok > 0 && probes_failed > 0;
    res
}
