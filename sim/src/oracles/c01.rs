//! C01 — byte-stream integrity: what a reader has read is always a prefix of what the peer wrote.
use librqbit_utp::verif::ProbeEvent;

use super::OracleResult;
use crate::{
    analysis::stream_accounts,
    codec,
    hist::Fate,
    scenario::Scenario,
    world::RunOutput,
};

pub const P: &str = "C01";

pub fn check(sc: &Scenario, out: &RunOutput) -> OracleResult {
    let mut res = OracleResult::default();
    let h = &out.hist;
    let accts = stream_accounts(sc, h);
    for ((k, wnode), a) in &accts {
        if let Some((t, off, e)) = &a.mismatch {
            res.violate(
                P,
                "content-mismatch",
                *t,
                format!("conn {} stream written by node {}: byte at offset {} differs from what was written ({}); read so far {}, written {}", k, wnode, off, e, a.read, a.written),
            );
            if let Some(v) = res.violations.last_mut() {
                v.offset = Some(*off);
                let dir = if sc.connects[*k].node == *wnode { 0 } else { 1 };
                v.stream_key = Some(sc.stream_key(*k, dir));
            }
        }
        if let Some((t, read, written)) = a.over_read {
            res.violate(
                P,
                "read-more-than-written",
                t,
                format!("conn {} stream written by node {}: reader has {} bytes but only {} were accepted by write", k, wnode, read, written),
            );
        }
    }
    // Relevance and rare-condition probes.
    let mut seen = std::collections::HashSet::new();
    let mut retx = 0u64;
    let mut dup_delivered = 0u64;
    let mut wrapped = false;
    for (_, e) in h.emits() {
        if let Some(p) = &e.pkt {
            if p.typ == codec::ST_DATA {
                if !seen.insert((e.src, p.conn_id, p.seq)) {
                    retx += 1;
                }
                if p.seq == 0 {
                    wrapped = true;
                }
            }
        }
        if let Fate::Deliver { dup_at: Some(_), .. } = e.fate {
            dup_delivered += 1;
        }
    }
    let mut ooo = 0u64;
    let mut ring_grew = false;
    let mut caps: std::collections::HashMap<_, usize> = Default::default();
    let mut mss_changed = false;
    let mut mss0: std::collections::HashMap<_, u16> = Default::default();
    for (_, p) in h.probes() {
        if let ProbeEvent::ConnPoll(s) = p {
            if s.rx_ooq_bytes > 0 {
                ooo += 1;
            }
            let c = caps.entry(s.key).or_insert(s.tx_ring_cap);
            if s.tx_ring_cap > *c {
                ring_grew = true;
                *c = s.tx_ring_cap;
            }
            let m = mss0.entry(s.key).or_insert(s.mss);
            if s.mss != *m {
                mss_changed = true;
            }
        }
    }
    res.probe("data_retransmissions", retx);
    res.probe("duplicate_deliveries", dup_delivered);
    res.probe("polls_with_out_of_order_data", ooo);
    res.hit("tx_ring_grew", ring_grew);
    res.hit("seq_wrapped", wrapped);
    res.hit("mss_changed", mss_changed);
    res.hit("bytes_read_gt_0", accts.values().any(|a| a.read > 0));
    res.relevant = (retx > 0 || ooo > 0) && accts.values().any(|a| a.read > 0);
    res
}
