//! C07 — acknowledgement timeliness: 40 ms delayed-ACK bound, immediate-ACK triggers, silence
//! when there is nothing to acknowledge. Decided on paced scripted-sender runs (at most one
//! datagram per virtual instant, no back-pressure), so "at the same instant" is unambiguous.
use std::collections::BTreeMap;

use super::{
    pw::{PeerWorld, X},
    OracleResult,
};
use crate::{
    codec,
    hist::{AppKind, AppRes, Half, MS, T},
    scenario::Scenario,
    util::seq_diff,
    world::RunOutput,
};

pub const P: &str = "C07";
const ACK_DELAY: T = 40 * MS;
const TOL: T = MS;

pub fn check(sc: &Scenario, out: &RunOutput) -> OracleResult {
    let mut res = OracleResult::default();
    let Some(w) = PeerWorld::new(sc, out) else {
        res.inconclusive = true;
        return res;
    };
    if sc.param("peer_exact") != Some(1) {
        // timing oracles need the paced compliant sender
        return res;
    }
    let first = w.script.pkt_seq(0);
    let evs = w.events();
    // the endpoint's own segment size model: max(family minimum, largest payload received,
    // largest own payload acknowledged), clamped to what its link allows
    let max_own = crate::scen_gen::max_payload(w.link, w.ipv6);
    let mut mss = w.mss_floor;
    let mut own_sent: BTreeMap<u16, usize> = BTreeMap::new();
    let mut delivered: BTreeMap<u16, usize> = BTreeMap::new();
    let mut cum: u16 = first.wrapping_sub(1);
    let mut fin_accepted = false;
    // obligations: (deadline, seq that must be covered, why, t_delivered)
    let mut due: Vec<(T, u16, &'static str, T)> = vec![];
    let mut unacked_bytes: usize = 0; // in-order bytes accepted since the last emitted ack
    let mut last_emit_ack: Option<u16> = None;
    let mut last_emit_wnd_zero: Option<bool> = None;
    // immediate-ACK triggers delivered and not yet answered (each justifies one ST_STATE)
    let mut triggers: u32 = 0;
    let mut established = false;
    let mut delayed = 0u64;
    let mut immediate = 0u64;
    let mut task_over = false;
    let mut first_peer_packet_seen = false;
    let mut reader_gone = false;
    // bytes accepted in order / bytes the application has read; a zero window that the reader
    // re-opens by draining everything must be announced at that very instant
    let mut inorder_bytes: u64 = 0;
    let mut read_bytes: u64 = 0;
    let mut reopen_due: Option<T> = None;
    // sends of the endpoint that a full socket refused (each is repeated a millisecond later):
    // "at that instant" and "within 40 ms" are extended by the refusals that fall in between
    let refused: Vec<T> = w.h.evs.iter().filter_map(|(ts, ev)| matches!(ev, crate::hist::Ev::SendFail { src, kind, .. } if *src == w.e && *kind == "pending").then_some(*ts)).collect();
    let slack = |from: T, to: T| -> T { refused.iter().filter(|ts| **ts >= from && **ts <= to).count() as T * crate::hist::MS };
    // a packet that arrives while an acknowledgement is being refused finds the endpoint in the
    // middle of sending the previous one (which cannot cover it): what it triggers is judged
    // like an ordinary delayed acknowledgement
    let imm = |t: T| -> T { if refused.iter().any(|ts| *ts + crate::hist::MS >= t && *ts <= t) { t + ACK_DELAY + TOL } else { t } };
    for (t, _, x) in &evs {
        let t = *t;
        if let Some(td) = reopen_due {
            if t > td + slack(td, t) {
                if !task_over {
                    res.violate(P, "window-reopen-not-announced", td, format!("the last datagram sent advertised a zero window; at {} the application read everything that had been received ({} bytes), yet no datagram with a non-zero window left at that instant", crate::hist::fmt_t(td), read_bytes));
                }
                reopen_due = None;
            }
        }
        // obligations that are overdue
        due.retain(|(dl, seq, why, td)| {
            if t > *dl + slack(*td, t) && !task_over {
                res.violate(
                    P,
                    if *why == "delayed" { "ack-later-than-40ms" } else { "immediate-ack-missing" },
                    *dl,
                    format!("data seq {} delivered at {} ({}): no packet with ack_nr >= {} left by {}", seq, crate::hist::fmt_t(*td), why, seq, crate::hist::fmt_t(*dl)),
                );
                false
            } else {
                true
            }
        });
        match x {
            X::DelivE(p, d) => {
                if d.corrupted {
                    continue;
                }
                if p.typ != codec::ST_SYN {
                    first_peer_packet_seen = true;
                }
                // own data acknowledged -> segment size model
                for (s, l) in own_sent.iter() {
                    if seq_diff(*s, p.ack) <= 0 {
                        mss = mss.max((*l).min(max_own));
                    }
                }
                match p.typ {
                    codec::ST_DATA if !fin_accepted => {
                        established = true;
                        mss = mss.max(p.payload.len().min(max_own));
                        let d_rel = seq_diff(p.seq, cum);
                        if d_rel <= 0 || delivered.contains_key(&p.seq) {
                            // duplicate -> immediate ACK (covering what is in order)
                            due.push((imm(t), cum, "duplicate", t));
                            triggers += 1;
                        } else if d_rel == 1 {
                            let had_gap = delivered.keys().any(|s| seq_diff(*s, cum) > 1);
                            delivered.insert(p.seq, p.payload.len());
                            while delivered.contains_key(&cum.wrapping_add(1)) {
                                cum = cum.wrapping_add(1);
                                inorder_bytes += delivered[&cum] as u64;
                            }
                            unacked_bytes += p.payload.len();
                            triggers += 1;
                            if had_gap {
                                // fills (part of) a gap
                                due.push((imm(t), cum, "gap-fill", t));
                            } else if unacked_bytes >= 2 * mss {
                                due.push((imm(t), cum, "two-segments", t));
                            } else {
                                due.push((t + ACK_DELAY + TOL, p.seq, "delayed", t));
                            }
                        } else {
                            delivered.insert(p.seq, p.payload.len());
                            due.push((imm(t), cum, "out-of-order", t));
                            triggers += 1;
                        }
                    }
                    codec::ST_FIN => {
                        established = true;
                        triggers += 1;
                        if !fin_accepted && p.seq == cum.wrapping_add(1) {
                            fin_accepted = true;
                            cum = p.seq;
                            due.push((imm(t), cum, "fin", t));
                        } else if fin_accepted && p.seq == cum {
                            // the peer repeats its FIN (our acknowledgement got lost): a
                            // duplicate like any other, answered at once
                            due.push((imm(t), cum, "duplicate-fin", t));
                        }
                    }
                    codec::ST_STATE => established = true,
                    _ => {}
                }
            }
            X::EmitE(p, _) => {
                if p.typ == codec::ST_SYN || p.typ == codec::ST_RESET {
                    continue;
                }
                if p.typ == codec::ST_DATA {
                    own_sent.insert(p.seq, p.payload.len());
                }
                // which obligations does it satisfy?
                let mut sat_delayed = false;
                let mut sat_immediate = false;
                due.retain(|(_, seq, why, td)| {
                    let covered = seq_diff(p.ack, *seq) >= 0;
                    if covered {
                        if *why == "delayed" {
                            if t > *td {
                                sat_delayed = true;
                            }
                        } else {
                            sat_immediate = true;
                        }
                        false
                    } else {
                        true
                    }
                });
                if sat_delayed && !sat_immediate {
                    delayed += 1;
                }
                if sat_immediate {
                    immediate += 1;
                }
                // silence: every pure ST_STATE of an established endpoint must be justified
                if p.typ == codec::ST_STATE && established && first_peer_packet_seen {
                    let ack_advanced = last_emit_ack.is_none_or(|la| seq_diff(p.ack, la) > 0);
                    let wnd_flip = last_emit_wnd_zero.is_some_and(|z| z != (p.wnd == 0));
                    if !(ack_advanced || triggers > 0 || wnd_flip) {
                        res.violate(P, "unjustified-state-packet", t, format!("{}: nothing new to acknowledge (last emitted ack {:?}), no unanswered immediate-ACK trigger, no zero/non-zero window change", p.short(), last_emit_ack));
                    }
                }
                triggers = triggers.saturating_sub(1);
                if seq_diff(p.ack, cum) >= 0 {
                    unacked_bytes = 0;
                } else if seq_diff(cum, p.ack) < 4096 {
                    // (an acknowledgement that went out late - refused by a full socket - may
                    // not cover what arrived meanwhile: that is what is un-acknowledged now)
                    let mut sum = 0usize;
                    let mut q = p.ack.wrapping_add(1);
                    while seq_diff(q, cum) <= 0 {
                        sum += delivered.get(&q).copied().unwrap_or(0);
                        q = q.wrapping_add(1);
                    }
                    unacked_bytes = unacked_bytes.min(sum);
                }
                last_emit_ack = Some(p.ack);
                last_emit_wnd_zero = Some(p.wnd == 0);
                if p.wnd > 0 {
                    reopen_due = None;
                }
            }
            X::App(a) if a.half == Half::R && a.conn < 1000 => {
                if let (AppKind::Read { .. }, AppRes::Ok(n)) = (&a.kind, &a.res) {
                    read_bytes += *n as u64;
                    if last_emit_wnd_zero == Some(true) && !reader_gone && established && !fin_accepted && read_bytes == inorder_bytes && inorder_bytes > 0 {
                        reopen_due = Some(t);
                    }
                    // a read may re-open a zero window: the update must leave at once
                    if last_emit_wnd_zero == Some(true) && !reader_gone {
                        // (the window is quantised to whole segments; it re-opens only once a
                        // segment fits — the wire tells: the next emission must be at this instant
                        // if it shows a non-zero window at all)
                        triggers += 1;
                    }
                }
                if matches!(a.kind, AppKind::DropHalf) {
                    reader_gone = true;
                }
            }
            X::Snap(s) => {
                if s.finished.is_some() {
                    task_over = true;
                    due.clear();
                } else if last_emit_wnd_zero == Some(true) && s.rx_window > 0 && s.state == "established" && !s.reader_dropped && !s.transport_pending {
                    // end of a poll: the window is open again but the peer was last told zero
                    res.violate(P, "window-reopen-not-announced", t, format!("receive window re-opened to {} but the last datagram sent advertised 0 and nothing was sent in this poll", s.rx_window));
                    last_emit_wnd_zero = None;
                }
                if s.rx_window == 0 && s.state == "established" {
                    res.hit("zero_window_reached", true);
                }
            }
            _ => {}
        }
    }
    res.probe("delayed_acks", delayed);
    res.probe("immediate_acks", immediate);
    res.relevant = delayed > 0 && immediate > 0;
    res
}
