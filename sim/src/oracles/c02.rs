//! C02 — progress: (a) fair-lossy liveness, (b) loss-free promptness.
use librqbit_utp::verif::ProbeEvent;

use super::OracleResult;
use crate::{
    analysis::stream_accounts,
    codec,
    hist::{AppKind, AppRes, Ev, Fate, Half, MS, T},
    scenario::Scenario,
    util::seq_le,
    world::RunOutput,
};

pub const P: &str = "C02";

/// Documented usage constraint (C17): an accepted connection gives up after its SYN-ACK
/// retries unless the initiator sends something first. Every C02 workload has the connector
/// write at the instant connect() returns; a scenario without that (e.g. produced by the
/// minimiser) is outside the property's premise.
fn connector_writes_promptly(sc: &Scenario, out: &RunOutput) -> bool {
    let Some(c) = sc.connects.first() else { return false };
    let mut t_conn = None;
    for (t, a) in out.hist.apps() {
        if a.node != c.node || a.conn != 0 {
            continue;
        }
        match (&a.kind, &a.res) {
            (AppKind::ConnectDone, AppRes::Ok(_)) => t_conn = Some(t),
            (AppKind::Write { .. }, AppRes::Ok(_)) => return t_conn == Some(t),
            _ => {}
        }
    }
    false
}

/// The fair-lossy premise "failure is impossible by protocol arithmetic": either library
/// defaults with budget <= 1 and delays <= 100 ms, or retransmission cap and inactivity
/// time-out sized for the budget and the maximum delay. Scenarios that do not meet it (e.g.
/// after the minimiser reset a configuration field) get no verdict.
fn fair_premise_met(sc: &Scenario) -> bool {
    let k = sc.net.drop_budget.unwrap_or(0) as u64;
    let extra_max = sc.net.explicit.as_ref().map(|e| e.iter().map(|d| d.extra_us).max().unwrap_or(0)).unwrap_or(sc.net.jitter_us);
    let d_us = sc.net.latency_us + extra_max;
    if sc.net.explicit.is_none() && sc.net.drop_budget.is_none() {
        return false;
    }
    sc.nodes.iter().all(|n| {
        let o = &n.opts;
        let total_ok = match &sc.net.explicit {
            Some(e) => e.iter().filter(|d| d.drop).count() <= 3,
            None => sc.net.drop_total.is_some_and(|t| t <= 3),
        };
        if d_us <= 90_000 && k <= 1 && total_ok {
            // defaults are enough
            return o.max_retx() >= 5 && o.inactivity_ms() >= 10_000;
        }
        let extra = ((d_us as f64 / 200_000.0).log2().ceil().max(0.0)) as u64;
        o.max_retx() as u64 >= 2 * k + extra + 4 && o.inactivity_ms() >= 240_000
    })
}

pub fn check(sc: &Scenario, out: &RunOutput) -> OracleResult {
    if sc.param("c02_mode") != Some(1) && !fair_premise_met(sc) {
        let mut r = OracleResult::default();
        r.hit("premise_not_met_arithmetic", true);
        return r;
    }
    // the budget is about datagram identities (a segment and its retransmissions are one
    // identity): explicit fault lists name send attempts and can hit one identity more often
    // than the declared budget - then the arithmetic above says nothing
    {
        let mut per_identity: std::collections::HashMap<(std::net::SocketAddr, u16, u8, u16, usize, u16), u32> = Default::default();
        for (_, e) in out.hist.emits() {
            if matches!(e.fate, crate::hist::Fate::Dropped(_)) {
                if let Some(p) = &e.pkt {
                    let seg = p.typ == codec::ST_DATA || p.typ == codec::ST_FIN;
                    let key = (e.src, p.conn_id, p.typ, p.seq, p.payload.len(), if seg { 0 } else { p.ack });
                    *per_identity.entry(key).or_insert(0) += 1;
                }
            }
        }
        let k = sc.net.drop_budget.unwrap_or(0) as u32;
        if sc.param("c02_mode") != Some(1) && per_identity.values().any(|n| *n > k) {
            let mut r = OracleResult::default();
            r.hit("premise_not_met_identity_dropped_beyond_budget", true);
            return r;
        }
    }
    if !connector_writes_promptly(sc, out) {
        let mut r = OracleResult::default();
        r.hit("premise_not_met_connector_silent", true);
        return r;
    }
    match sc.param("c02_mode") {
        Some(1) => promptness(sc, out),
        _ => liveness(sc, out),
    }
}

/// (a) On a fair-lossy network every accepted byte is read at the peer, flush and shutdown
/// return, nothing stays parked, and no call fails.
fn liveness(sc: &Scenario, out: &RunOutput) -> OracleResult {
    let mut res = OracleResult::default();
    let h = &out.hist;
    let accts = stream_accounts(sc, h);
    let drops = h.fault_counts.get("drop").copied().unwrap_or(0);
    // No write-side call fails — unless the peer had closed the connection by then (in this
    // library a FIN ends both directions; what the closer does afterwards, including giving
    // up 1 s after its FIN, is C17's business). Read errors after the peer's bytes were all
    // read are not a liveness failure either; undelivered bytes are caught below.
    for (t, a) in h.apps() {
        if let AppRes::Err(e) = &a.res {
            if !matches!(a.kind, AppKind::Write { .. } | AppKind::Flush | AppKind::Shutdown | AppKind::ConnectDone | AppKind::AcceptDone) {
                continue;
            }
            let me = sc.addr(a.node);
            // the peer initiated a close (its FIN was emitted, delivered or not) before the error
            let peer_closed = h.emits().any(|(te, e)| te <= t && e.dst == me && e.real && e.pkt.as_ref().is_some_and(|p| p.typ == codec::ST_FIN));
            if peer_closed {
                continue;
            }
            res.violate(P, "call-failed-on-fair-network", t, format!("node {} conn {} {:?}: {:?} failed with '{}' although every datagram identity was dropped at most {} times and the peer had not closed", a.node, a.conn, a.half, a.kind, e, sc.net.drop_budget.unwrap_or(0)));
            res.violations.last_mut().map(|v| v.node = Some(a.node));
        }
    }
    // A run that was cut (time or attempt cap) while bytes were still arriving at a reader is
    // slow, not stuck (e.g. a 76-byte transmit buffer over a path with a second of jitter moves
    // one small segment per round trip): no verdict on what had not arrived yet.
    let last_progress = h.apps().filter(|(_, a)| matches!((&a.kind, &a.res), (AppKind::Read { .. }, AppRes::Ok(n)) if *n > 0)).map(|(t, _)| t).last();
    if last_progress.is_some_and(|t| out.t_end.saturating_sub(t) < 120 * crate::hist::SEC) && accts.values().any(|a| a.read < a.written) {
        res.hit("run_cut_while_still_progressing", true);
        return res;
    }
    // everything delivered; nothing parked
    for ((k, wnode), a) in &accts {
        if a.read < a.written {
            res.violate(
                P,
                "stalled-bytes-undelivered",
                out.t_end,
                format!("conn {} node {}: {} bytes accepted by write, only {} read at the peer by the end of the run ({}; last fault at most at {} ms); reader: eof={:?} err={:?}", k, wnode, a.written, a.read, crate::hist::fmt_t(out.t_end), sc.net.fault_until_ms.unwrap_or(0), a.eof.is_some(), a.read_err),
            );
            res.violations.last_mut().map(|v| {
                v.offset = Some(a.read);
                v.aux = Some(a.written);
                v.wnode = Some(*wnode);
                v.node = Some(*wnode);
            });
        }
    }
    let mut pending: std::collections::HashMap<(usize, usize, Half, u8), T> = Default::default();
    for (t, a) in h.apps() {
        let class = match &a.kind {
            AppKind::WriteBlocked { .. } | AppKind::Write { .. } => 1,
            AppKind::FlushStart | AppKind::Flush => 2,
            AppKind::ShutdownStart | AppKind::Shutdown => 3,
            AppKind::ConnectStart | AppKind::ConnectDone => 4,
            AppKind::AcceptStart | AppKind::AcceptDone => 5,
            _ => continue,
        };
        let is_start = matches!(a.kind, AppKind::WriteBlocked { .. } | AppKind::FlushStart | AppKind::ShutdownStart | AppKind::ConnectStart | AppKind::AcceptStart);
        if is_start {
            pending.insert((a.node, a.conn, a.half, class), t);
        } else {
            pending.remove(&(a.node, a.conn, a.half, class));
        }
    }
    for ((node, conn, _, class), t0) in pending {
        let name = ["", "write", "flush", "shutdown", "connect", "accept"][class as usize];
        res.violate(P, "call-never-returned", out.t_end, format!("node {} conn {}: {} pending since {} never returned (run ended at {})", node, conn, name, crate::hist::fmt_t(t0), crate::hist::fmt_t(out.t_end)));
        res.violations.last_mut().map(|v| v.node = Some(node));
    }
    // probes
    let mut zero_window = false;
    for (_, p) in h.probes() {
        if let ProbeEvent::ConnPoll(s) = p {
            if s.last_remote_window == 0 && s.state == "established" && s.tx_ring_len > 0 {
                zero_window = true;
            }
        }
    }
    res.probe("drops_fired", drops);
    res.hit("sender_saw_zero_window_with_data", zero_window);
    res.hit("window_update_dropped", h.emits().any(|(_, e)| matches!(e.fate, Fate::Dropped(_)) && e.pkt.as_ref().is_some_and(|p| p.typ == codec::ST_STATE)));
    res.relevant = drops > 0;
    res
}

/// (b) Loss-free, fixed latency: progress never waits for a timer.
fn promptness(sc: &Scenario, out: &RunOutput) -> OracleResult {
    let mut res = OracleResult::default();
    let h = &out.hist;
    let lat = sc.net.latency_us * 1000;
    let bound = 2 * lat + 40 * MS + MS;

    // Per stream direction (writer node): undelivered = written - read.
    let mut written = [0u64; 2];
    let mut read = [0u64; 2];
    // last wire emission or the instant undelivered became > 0
    let mut last_activity: T = 0;
    let mut idle_writes = 0u64;
    let mut idle_shutdowns = 0u64;
    let mut flushes = 0u64;
    // last snapshot per node
    let mut snap: [Option<&librqbit_utp::verif::ConnSnapshot>; 2] = [None, None];
    let mut wrote_since_snap = [false; 2];
    // idle-write obligations: (t, node) -> satisfied?
    let mut need_data_at: Vec<(T, usize, u64)> = vec![];
    let mut need_fin_at: Vec<(T, usize)> = vec![];
    let undelivered = |w: &[u64; 2], r: &[u64; 2]| w[0] > r[0] || w[1] > r[1];
    let node_of = |a: std::net::SocketAddr| super::c14::node_of(sc, a);
    for (t, ev) in &h.evs {
        match ev {
            Ev::Emit(e) => {
                if undelivered(&written, &read) && *t - last_activity > bound {
                    // F21 context: a sender sat on a segment it had cut for an older, wider window
                    // (nothing in flight, segments queued, their bytes exceed the peer's window)
                    let precut = snap.iter().flatten().any(|s| s.flight_size == 0 && s.segmented_packets > 0 && s.last_remote_window > 0 && s.segmented_bytes > s.last_remote_window as usize);
                    res.violate(P, "wire-silent-too-long", *t, format!("no datagram between {} and {} ({} ms) while accepted bytes were undelivered; bound 2L+40ms = {} ms (L = {} ms); a sender held a pre-cut segment beyond the peer's window: {}", crate::hist::fmt_t(last_activity), crate::hist::fmt_t(*t), (*t - last_activity) / MS, bound / MS, lat / MS, precut));
                    if precut {
                        if let Some(v) = res.violations.last_mut() {
                            if v.tag == "wire-silent-too-long" && v.t == *t {
                                v.aux = Some(21);
                            }
                        }
                    }
                }
                last_activity = *t;
                if let (Some(n), Some(p)) = (node_of(e.src), &e.pkt) {
                    if n < 2 {
                        if p.typ == codec::ST_DATA {
                            need_data_at.retain(|(tw, nn, _)| !(*nn == n && *tw == *t));
                        }
                        if p.typ == codec::ST_FIN {
                            need_fin_at.retain(|(tw, nn)| !(*nn == n && *tw == *t));
                        }
                    }
                }
            }
            Ev::App(a) if a.conn < 1000 && a.node < 2 => {
                let n = a.node;
                match (&a.kind, &a.res) {
                    (AppKind::Write { off }, AppRes::Ok(k)) => {
                        if !undelivered(&written, &read) {
                            last_activity = *t;
                        }
                        // (ii) idle connection?
                        if let Some(s) = snap[n] {
                            if !wrote_since_snap[n] && s.tx_ring_len == 0 && s.state == "established" && s.last_remote_window as usize >= s.mss as usize && s.finished.is_none() && !s.transport_pending {
                                idle_writes += 1;
                                need_data_at.push((*t, n, *off));
                            }
                        }
                        wrote_since_snap[n] = true;
                        written[n] += *k as u64;
                    }
                    (AppKind::Read { .. }, AppRes::Ok(k)) => {
                        read[1 - n] += *k as u64;
                    }
                    (AppKind::ShutdownStart, _) => {
                        if let Some(s) = snap[n] {
                            if !wrote_since_snap[n] && s.tx_ring_len == 0 && s.state == "established" && s.finished.is_none() && !s.transport_pending {
                                idle_shutdowns += 1;
                                need_fin_at.push((*t, n));
                            }
                        }
                    }
                    _ => {}
                }
            }
            Ev::Probe(ProbeEvent::ConnPoll(s)) => {
                if let Some(n) = node_of(s.key.local) {
                    if n < 2 {
                        snap[n] = Some(s);
                        wrote_since_snap[n] = false;
                    }
                }
            }
            _ => {}
        }
        // Obligations whose instant has passed without being met.
        let mut i = 0;
        while i < need_data_at.len() {
            if need_data_at[i].0 < *t {
                let (tw, n, off) = need_data_at.remove(i);
                res.violate(P, "idle-write-not-sent-at-once", tw, format!("node {}: write at stream offset {} accepted at {} on an idle connection, but no ST_DATA left at that instant (next event at {})", n, off, crate::hist::fmt_t(tw), crate::hist::fmt_t(*t)));
            } else {
                i += 1;
            }
        }
        let mut i = 0;
        while i < need_fin_at.len() {
            if need_fin_at[i].0 < *t {
                let (tw, n) = need_fin_at.remove(i);
                res.violate(P, "idle-shutdown-fin-delayed", tw, format!("node {}: shutdown called at {} on an idle connection, but no ST_FIN left at that instant (next event at {})", n, crate::hist::fmt_t(tw), crate::hist::fmt_t(*t)));
            } else {
                i += 1;
            }
        }
    }
    if undelivered(&written, &read) && out.t_end - last_activity > bound {
        res.violate(P, "wire-silent-too-long", out.t_end, format!("no datagram after {} until the end of the run ({}) while accepted bytes were undelivered (written {:?}, read {:?})", crate::hist::fmt_t(last_activity), crate::hist::fmt_t(out.t_end), written, read));
    }

    // (iv) flush returns at the instant the covering ACK is delivered.
    for n in 0..2usize {
        let me = sc.addr(n);
        // data seq -> cumulative end offset (loss-free, so first transmissions in order)
        let mut ends: Vec<(u16, u64)> = vec![];
        let mut cum = 0u64;
        let mut seen = std::collections::HashSet::new();
        for (_, e) in h.emits() {
            if e.src == me {
                if let Some(p) = &e.pkt {
                    if p.typ == codec::ST_DATA && seen.insert(p.seq) {
                        cum += p.payload.len() as u64;
                        ends.push((p.seq, cum));
                    }
                }
            }
        }
        let mut w = 0u64;
        let mut flush_start: Option<(T, u64)> = None;
        for (t, a) in h.apps() {
            if a.node != n || a.conn >= 1000 {
                continue;
            }
            match (&a.kind, &a.res) {
                (AppKind::Write { .. }, AppRes::Ok(k)) => w += *k as u64,
                (AppKind::FlushStart, _) => flush_start = Some((t, w)),
                (AppKind::Flush, AppRes::Ok(_)) => {
                    let Some((ts, wf)) = flush_start.take() else { continue };
                    flushes += 1;
                    if wf == 0 {
                        continue;
                    }
                    let Some((sstar, _)) = ends.iter().find(|(_, end)| *end >= wf) else { continue };
                    let t_ack = h.delivers().find(|(_, d)| d.dst == me && d.pkt.as_ref().is_some_and(|p| p.typ != codec::ST_SYN && seq_le(*sstar, p.ack))).map(|(t, _)| t);
                    let Some(t_ack) = t_ack else { continue };
                    let due = t_ack.max(ts);
                    if t > due {
                        res.violate(P, "flush-woken-late", t, format!("node {}: flush (started {}) returned at {} but the ACK covering byte {} was delivered at {}", n, crate::hist::fmt_t(ts), crate::hist::fmt_t(t), wf, crate::hist::fmt_t(t_ack)));
                    }
                }
                _ => {}
            }
        }
    }
    res.probe("idle_writes", idle_writes);
    res.probe("idle_shutdowns", idle_shutdowns);
    res.probe("flushes", flushes);
    res.relevant = idle_writes + idle_shutdowns > 0;
    res
}
