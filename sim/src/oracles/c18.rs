//! C18 — Nagle coalescing. On: no new data segment smaller than the proven segment size while
//! earlier data is un-acknowledged, unless the peer's window is what limits it; held bytes go
//! out at the instant the pipe drains. Off: at the end of every connection poll un-segmented
//! bytes remain only if window or congestion control are exhausted.
use std::collections::BTreeMap;

use super::{
    pw::{covers, PeerWorld, X},
    OracleResult,
};
use crate::{codec, hist::T, scenario::Scenario, util::seq_diff, world::RunOutput};

pub const P: &str = "C18";

pub fn check(sc: &Scenario, out: &RunOutput) -> OracleResult {
    let mut res = OracleResult::default();
    let Some(w) = PeerWorld::new(sc, out) else {
        res.inconclusive = true;
        return res;
    };
    let nagle = !sc.nodes[0].opts.disable_nagle;
    let evs = w.events_effective();
    let max_own = crate::scen_gen::max_payload(w.link, w.ipv6);
    let mut proven = w.mss_floor;
    let mut sent: BTreeMap<u16, (usize, Option<T>)> = BTreeMap::new(); // seq -> (len, acked at)
    let mut outstanding: i64 = 0;
    let mut last_wnd: Option<u32> = None;
    let mut wnd_at_instant: Vec<u32> = vec![];
    let mut t_now: T = 0;
    let mut small_while_unacked = 0u64;
    let mut small_sent = 0u64;
    let mut hostile = false;
    let mut next_unsent: Option<u16> = w.e_first_seq;
    let mut fin_seen = false;
    let mut peer_closed = false;
    // Nagle-on promptness: when the last outstanding ACK is delivered and bytes are held, they
    // must leave at that instant: obligation (t, idx)
    let mut drain_obligation: Option<T> = None;
    let mut held_bytes_after_last_poll: usize = 0;
    // segments cut but not yet transmitted at the end of the previous poll (packets, bytes)
    // sent sequence numbers still in the sender's queue (send order; popped from the front
    // once acknowledged)
    let mut queue: std::collections::VecDeque<u16> = Default::default();
    let mut precut_pkts: usize = 0;
    let mut precut_bytes: usize = 0;
    let mut new_tx_this_poll: usize = 0;
    let mut windows_seen: Vec<u32> = vec![];
    let mut precut_small = 0u64;
    let mut snap_mss: Option<usize> = None;
    let mut conn_over = false;
    let mut writer_gone = false;

    for (t, _, x) in &evs {
        let t = *t;
        if t != t_now {
            if let Some(l) = wnd_at_instant.last() {
                last_wnd = Some(*l);
            }
            wnd_at_instant.clear();
            t_now = t;
            if let Some(td) = drain_obligation {
                if t > td {
                    if nagle && !hostile && !peer_closed && !conn_over {
                        res.violate(P, "held-bytes-not-sent-when-pipe-drained", td, format!("the last outstanding data was acknowledged at {} while bytes were held back, but no data segment left at that instant", crate::hist::fmt_t(td)));
                    }
                    drain_obligation = None;
                }
            }
        }
        match x {
            X::DelivE(p, d) => {
                if d.corrupted || p.typ == codec::ST_SYN {
                    continue;
                }
                if p.typ == codec::ST_FIN || p.typ == codec::ST_RESET {
                    peer_closed = true;
                }
                wnd_at_instant.push(p.wnd);
                if !windows_seen.contains(&p.wnd) {
                    windows_seen.push(p.wnd);
                }
                if p.typ == codec::ST_DATA {
                    proven = proven.max(p.payload.len().min(max_own));
                }
                if let Some(n) = next_unsent {
                    // acknowledges (cumulatively or selectively) data that was never sent
                    if seq_diff(p.ack, n) >= 0 {
                        hostile = true;
                    }
                    if let Some(bits) = p.sack_bits() {
                        for (k, b) in bits.iter().enumerate() {
                            if *b && seq_diff(p.ack.wrapping_add(2).wrapping_add(k as u16), n) >= 0 {
                                hostile = true;
                            }
                        }
                    }
                }
                let before = outstanding;
                for s in queue.iter() {
                    if let Some((l, a)) = sent.get_mut(s) {
                        if a.is_none() && covers(p, *s) {
                            *a = Some(t);
                            outstanding -= *l as i64;
                            proven = proven.max((*l).min(max_own));
                        }
                    }
                }
                // (the window must be able to take a full segment or everything that is held:
                // a narrower window is "what limits it" - the library cannot re-cut the segments
                // it has already cut for an older, wider window)
                // (segments already cut go first and cannot be re-cut: the window must take them)
                let need = if precut_pkts > 0 { precut_bytes } else { held_bytes_after_last_poll.min(proven) };
                if before > 0 && outstanding == 0 && held_bytes_after_last_poll > 0 && (p.wnd as usize) >= need && !writer_gone && !conn_over && !fin_seen {
                    drain_obligation = Some(t);
                } else if drain_obligation == Some(t) && (p.wnd as usize) < need {
                    // a later packet of the same batch narrows the window again
                    drain_obligation = None;
                }
            }
            X::EmitE(p, _) => {
                if p.typ == codec::ST_FIN {
                    fin_seen = true;
                }
                if p.typ != codec::ST_DATA {
                    continue;
                }
                drain_obligation = None;
                let len = p.payload.len();
                let first = !sent.contains_key(&p.seq);
                // the segment size it could have used: what the wire proves, but not more than
                // the sender's own current segment size (a probe whose acknowledgement came
                // after it had been taken back proves nothing to the sender)
                let proven = snap_mss.map_or(proven, |m| proven.min(m.max(w.mss_floor)));
                if next_unsent.is_none_or(|n| seq_diff(p.seq, n) >= 0) {
                    next_unsent = Some(p.seq.wrapping_add(1));
                }
                if !first {
                    // re-cut of a popped probe: adjust
                    if let Some((l, a)) = sent.get_mut(&p.seq) {
                        if *l != len {
                            if a.is_none() {
                                outstanding += len as i64 - *l as i64;
                            }
                            *l = len;
                        }
                    }
                    continue;
                }
                // earlier data un-acked (no covering ACK delivered before this emission, in the
                // order of the event log)?
                let unacked_before = queue.iter().any(|q| sent.get(q).is_some_and(|(_, a)| a.is_none()));
                if len < proven {
                    small_sent += 1;
                    if unacked_before {
                        small_while_unacked += 1;
                        if nagle && !hostile {
                            // unless the peer's window is what limits it
                            let mut wnds: Vec<u32> = wnd_at_instant.clone();
                            if let Some(l) = last_wnd {
                                wnds.push(l);
                            }
                            let window_limited = wnds.iter().any(|wv| (*wv as i64 - outstanding) <= len as i64);
                            // Was this segment cut in an earlier poll (it existed, un-sent, at the
                            // end of the previous poll) to exactly fill a window advertised then?
                            // (cut size = that window minus a whole number of full segments)
                            let precut = new_tx_this_poll < precut_pkts;
                            let window_cut = windows_seen.iter().any(|wv| (*wv as usize) >= len && ((*wv as usize - len) % proven.max(1) == 0 || (*wv as usize) < proven));
                            if !window_limited {
                                if precut && window_cut {
                                    precut_small += 1;
                                    res.violate(P, "window-cut-segment-sent-after-window-grew", t, format!("Nagle on: first transmission of seq {} with {} bytes (< proven segment size {}) while earlier data is un-acknowledged ({} bytes outstanding, advertised windows now {:?}); the segment was cut in an earlier poll to fit a window advertised then", p.seq, len, proven, outstanding, wnds));
                                } else {
                                    res.violate(P, "partial-segment-while-unacked", t, format!("Nagle on: first transmission of seq {} with {} bytes (< proven segment size {}) while earlier data is un-acknowledged ({} bytes outstanding, advertised windows {:?}; pre-cut: {}, fits an earlier window: {})", p.seq, len, proven, outstanding, wnds, precut, window_cut));
                                }
                            }
                        }
                    }
                }
                sent.insert(p.seq, (len, None));
                queue.push_back(p.seq);
                outstanding += len as i64;
                new_tx_this_poll += 1;
            }
            X::Snap(s) => {
                if s.finished.is_some() {
                    conn_over = true;
                    drain_obligation = None;
                }
                held_bytes_after_last_poll = s.unsegmented;
                snap_mss = Some(s.mss as usize);
                // cut and never transmitted: everything in the segment queue beyond what the wire
                // shows as sent and not cumulatively acknowledged
                while let Some(q) = queue.front() {
                    if sent.get(q).is_some_and(|(_, a)| a.is_some()) {
                        queue.pop_front();
                    } else {
                        break;
                    }
                }
                let in_queue_bytes: usize = queue.iter().filter_map(|q| sent.get(q)).map(|(l, _)| *l).sum();
                precut_pkts = s.segmented_packets.saturating_sub(queue.len());
                precut_bytes = s.segmented_bytes.saturating_sub(in_queue_bytes);
                new_tx_this_poll = 0;
                writer_gone = s.writer_dropped && false;
                // Nagle off: nothing is held back except by window / congestion control / an
                // outstanding probe / a closing connection
                if !nagle && s.unsegmented > 0 && s.finished.is_none() && !hostile && s.state == "established" && !s.transport_pending {
                    let room_wnd = (s.last_remote_window as i64) - (s.segmented_bytes as i64);
                    // an outstanding size probe stops further segmentation: a sent, un-acknowledged
                    // segment larger than the current segment size, or one that is cut and waits
                    // (the queue then holds more bytes than whole ordinary segments would)
                    let mss_now = s.mss as usize;
                    let probe_in_flight = queue.iter().filter_map(|q| sent.get(q)).any(|(l, a)| a.is_none() && *l > mss_now);
                    // (which of the cut-but-unsent segments is a probe cannot be told from the
                    // byte totals - window-sized pieces sit there too: any such segment counts)
                    let probe_cut = precut_pkts > 0;
                    let probing = s.mss != s.max_ss && (probe_in_flight || probe_cut);
                    let rto_mode = s.rto_retransmissions > 0;
                    // window exhausted: the peer's window minus what is already segmented leaves nothing
                    if room_wnd > 0 && !probing && !rto_mode && !s.recovering {
                        res.violate(P, "nagle-off-bytes-held", t, format!("Nagle off: {} bytes un-segmented at the end of a poll although the peer window {} minus {} segmented bytes leaves {} (no probe outstanding, not in recovery)", s.unsegmented, s.last_remote_window, s.segmented_bytes, room_wnd));
                    }
                }
            }
            _ => {}
        }
    }
    let _ = fin_seen;
    res.probe("sub_segment_first_transmissions", small_sent);
    res.probe("sub_segment_while_unacked", small_while_unacked);
    res.probe("window_cut_segments_sent_late", precut_small);
    res.relevant = small_sent > 0;
    res
}
