//! C18 — Nagle coalescing. On: no new data segment smaller than the proven segment size while
//! earlier data is un-acknowledged, unless the peer's window is what limits it; held bytes go
//! out at the instant the pipe drains. Off: at the end of every connection poll un-segmented
//! bytes remain only if window or congestion control are exhausted.
use std::collections::BTreeMap;

use super::{
    pw::{covers, PeerWorld, X},
    OracleResult,
};
use crate::{codec, hist::T, scenario::Scenario, util::seq_diff, world::RunOutput};

pub const P: &str = "C18";

pub fn check(sc: &Scenario, out: &RunOutput) -> OracleResult {
    let mut res = OracleResult::default();
    let Some(w) = PeerWorld::new(sc, out) else {
        res.inconclusive = true;
        return res;
    };
    let nagle = !sc.nodes[0].opts.disable_nagle;
    let evs = w.events();
    let max_own = crate::scen_gen::max_payload(w.link, w.ipv6);
    let mut proven = w.mss_floor;
    let mut sent: BTreeMap<u16, (usize, Option<T>)> = BTreeMap::new(); // seq -> (len, acked at)
    let mut outstanding: i64 = 0;
    let mut last_wnd: Option<u32> = None;
    let mut wnd_at_instant: Vec<u32> = vec![];
    let mut t_now: T = 0;
    let mut small_while_unacked = 0u64;
    let mut small_sent = 0u64;
    let mut hostile = false;
    let mut next_unsent: Option<u16> = w.e_first_seq;
    let mut fin_seen = false;
    let mut peer_closed = false;
    // Nagle-on promptness: when the last outstanding ACK is delivered and bytes are held, they
    // must leave at that instant: obligation (t, idx)
    let mut drain_obligation: Option<T> = None;
    let mut held_bytes_after_last_poll: usize = 0;
    let mut writer_gone = false;

    for (t, _, x) in &evs {
        let t = *t;
        if t != t_now {
            if let Some(l) = wnd_at_instant.last() {
                last_wnd = Some(*l);
            }
            wnd_at_instant.clear();
            t_now = t;
            if let Some(td) = drain_obligation {
                if t > td {
                    if nagle && !hostile && !peer_closed {
                        res.violate(P, "held-bytes-not-sent-when-pipe-drained", td, format!("the last outstanding data was acknowledged at {} while bytes were held back, but no data segment left at that instant", crate::hist::fmt_t(td)));
                    }
                    drain_obligation = None;
                }
            }
        }
        match x {
            X::DelivE(p, d) => {
                if d.corrupted || p.typ == codec::ST_SYN {
                    continue;
                }
                if p.typ == codec::ST_FIN || p.typ == codec::ST_RESET {
                    peer_closed = true;
                }
                wnd_at_instant.push(p.wnd);
                if p.typ == codec::ST_DATA {
                    proven = proven.max(p.payload.len().min(max_own));
                }
                if let Some(n) = next_unsent {
                    if seq_diff(p.ack, n) >= 0 {
                        hostile = true;
                    }
                }
                let before = outstanding;
                for (s, (l, a)) in sent.iter_mut() {
                    if a.is_none() && covers(p, *s) {
                        *a = Some(t);
                        outstanding -= *l as i64;
                        proven = proven.max((*l).min(max_own));
                    }
                }
                if before > 0 && outstanding == 0 && held_bytes_after_last_poll > 0 && p.wnd > 0 && !writer_gone {
                    drain_obligation = Some(t);
                }
            }
            X::EmitE(p, _) => {
                if p.typ == codec::ST_FIN {
                    fin_seen = true;
                }
                if p.typ != codec::ST_DATA {
                    continue;
                }
                drain_obligation = None;
                let len = p.payload.len();
                let first = !sent.contains_key(&p.seq);
                if next_unsent.is_none_or(|n| seq_diff(p.seq, n) >= 0) {
                    next_unsent = Some(p.seq.wrapping_add(1));
                }
                if !first {
                    // re-cut of a popped probe: adjust
                    if let Some((l, a)) = sent.get_mut(&p.seq) {
                        if *l != len {
                            if a.is_none() {
                                outstanding += len as i64 - *l as i64;
                            }
                            *l = len;
                        }
                    }
                    continue;
                }
                // earlier data un-acked (no covering ACK delivered strictly before this instant)?
                let unacked_before = sent.values().any(|(_, a)| a.is_none_or(|ta| ta >= t));
                if len < proven {
                    small_sent += 1;
                    if unacked_before {
                        small_while_unacked += 1;
                        if nagle && !hostile {
                            // unless the peer's window is what limits it
                            let mut wnds: Vec<u32> = wnd_at_instant.clone();
                            if let Some(l) = last_wnd {
                                wnds.push(l);
                            }
                            let window_limited = wnds.iter().any(|wv| (*wv as i64 - outstanding) <= len as i64);
                            if !window_limited {
                                res.violate(P, "partial-segment-while-unacked", t, format!("Nagle on: first transmission of seq {} with {} bytes (< proven segment size {}) while earlier data is un-acknowledged ({} bytes outstanding, advertised windows {:?})", p.seq, len, proven, outstanding, wnds));
                            }
                        }
                    }
                }
                sent.insert(p.seq, (len, None));
                outstanding += len as i64;
            }
            X::Snap(s) => {
                held_bytes_after_last_poll = s.unsegmented;
                writer_gone = s.writer_dropped && false;
                // Nagle off: nothing is held back except by window / congestion control / an
                // outstanding probe / a closing connection
                if !nagle && s.unsegmented > 0 && s.finished.is_none() && !hostile && s.state == "established" && !s.transport_pending {
                    let room_wnd = (s.last_remote_window as i64) - (s.segmented_bytes as i64);
                    let probing = s.mss != s.max_ss && s.segmented_packets > 0;
                    let rto_mode = s.rto_retransmissions > 0;
                    // window exhausted: the peer's window minus what is already segmented leaves nothing
                    if room_wnd > 0 && !probing && !rto_mode && !s.recovering {
                        res.violate(P, "nagle-off-bytes-held", t, format!("Nagle off: {} bytes un-segmented at the end of a poll although the peer window {} minus {} segmented bytes leaves {} (no probe outstanding, not in recovery)", s.unsegmented, s.last_remote_window, s.segmented_bytes, room_wnd));
                    }
                }
            }
            _ => {}
        }
    }
    let _ = fin_seen;
    res.probe("sub_segment_first_transmissions", small_sent);
    res.probe("sub_segment_while_unacked", small_while_unacked);
    res.relevant = small_sent > 0;
    res
}
