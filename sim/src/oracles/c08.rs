//! C08 — every connection terminates, frees its slot, and is silent afterwards.
use std::collections::{BTreeMap, HashMap};

use librqbit_utp::verif::{ConnKey, ConnSnapshot, ProbeEvent};

use super::OracleResult;
use crate::{
    analysis::ConnTable,
    codec,
    hist::{AppKind, AppRes, Ev, Fate, Half, MS, T},
    scenario::Scenario,
    world::RunOutput,
};

pub const P: &str = "C08";

/// B(config): bound for a connection task to end once nothing keeps it alive.
pub fn end_bound_ms(sc: &Scenario, node: usize) -> u64 {
    super::c03::death_bound_ms(sc, node) + 5_000
}

pub fn check(sc: &Scenario, out: &RunOutput) -> OracleResult {
    let mut res = OracleResult::default();
    let h = &out.hist;
    let ct = ConnTable::build(h);

    // Task lifetimes.
    #[derive(Default)]
    struct Life<'a> {
        created: Vec<T>,
        dropped: Vec<(T, usize)>,
        last_snap: Option<&'a ConnSnapshot>,
        finished_err: Option<String>,
    }
    let mut lives: BTreeMap<(std::net::SocketAddr, std::net::SocketAddr, u16), Life> = BTreeMap::new();
    let k3 = |k: &ConnKey| (k.local, k.remote, k.conn_id_send);
    let mut last_sock: HashMap<std::net::SocketAddr, (T, usize, usize, usize)> = HashMap::new();
    let mut cancels: Vec<(T, usize)> = vec![];
    let mut token_cancels: Vec<(T, usize)> = vec![];
    for (idx, (t, ev)) in h.evs.iter().enumerate() {
        match ev {
            Ev::Probe(ProbeEvent::ConnCreated(k)) => lives.entry(k3(k)).or_default().created.push(*t),
            Ev::Probe(ProbeEvent::ConnDropped(k)) => lives.entry(k3(k)).or_default().dropped.push((*t, idx)),
            Ev::Probe(ProbeEvent::ConnPoll(s)) => {
                let l = lives.entry(k3(&s.key)).or_default();
                l.last_snap = Some(s);
                if let Some(Some(e)) = &s.finished {
                    l.finished_err = Some(e.clone());
                }
            }
            Ev::Probe(ProbeEvent::Socket(s)) => {
                last_sock.insert(s.local, (*t, s.streams, s.connecting, s.max_streams));
            }
            Ev::Fault(s) => {
                if let Some(rest) = s.strip_prefix("cancel socket token node ") {
                    if let Ok(n) = rest.trim().parse::<usize>() {
                        cancels.push((*t, n));
                        token_cancels.push((*t, n));
                    }
                }
                if let Some(rest) = s.strip_prefix("kill ") {
                    if let Some(n) = (0..sc.nodes.len()).find(|n| sc.addr(*n).to_string() == rest.trim()) {
                        cancels.push((*t, n));
                    }
                }
            }
            _ => {}
        }
    }

    // Which (node, k) let go / failed, and when.
    // let-go = both halves dropped, or shutdown returned, or any call failed.
    let mut letgo: HashMap<(usize, usize), T> = HashMap::new();
    let mut dropped_halves: HashMap<(usize, usize), (Option<T>, Option<T>)> = HashMap::new();
    for (t, a) in h.apps() {
        if a.conn >= 1000 {
            continue;
        }
        let key = (a.node, a.conn);
        match (&a.kind, &a.res) {
            (AppKind::DropHalf, _) => {
                let e = dropped_halves.entry(key).or_default();
                match a.half {
                    Half::R => e.0 = Some(t),
                    Half::W => e.1 = Some(t),
                }
                if let (Some(a), Some(b)) = *e {
                    letgo.entry(key).or_insert(a.max(b));
                }
            }
            (AppKind::Shutdown, AppRes::Ok(_)) => {
                letgo.entry(key).or_insert(t);
            }
            (AppKind::Read { .. } | AppKind::Write { .. } | AppKind::Flush | AppKind::Shutdown, AppRes::Err(_)) => {
                letgo.entry(key).or_insert(t);
            }
            _ => {}
        }
    }
    // Map (node, k) -> wire key.
    let mut syn_of_connect: HashMap<usize, (u16, T)> = HashMap::new();
    {
        let mut used = std::collections::HashSet::new();
        for (k, c) in sc.connects.iter().enumerate() {
            let src = sc.addr(c.node);
            let dst = sc.addr(c.to);
            // the ConnectStart instant
            let Some((t0, _)) = h.apps().find(|(_, a)| a.conn == k && a.node == c.node && matches!(a.kind, AppKind::ConnectStart)) else { continue };
            for (i, wc) in ct.conns.iter().enumerate() {
                if wc.connector == src && wc.acceptor == dst && wc.t_syn == t0 && !used.contains(&i) {
                    used.insert(i);
                    syn_of_connect.insert(k, (wc.syn_id, wc.t_syn));
                    break;
                }
            }
        }
    }
    let mut lost_closing = false;
    for (_, e) in h.emits() {
        if let (Some(p), Fate::Dropped(_)) = (&e.pkt, e.fate) {
            if p.typ == codec::ST_FIN || p.typ == codec::ST_RESET {
                lost_closing = true;
            }
        }
    }

    // (a) tasks end within B of the application letting go.
    let mut judged = 0u64;
    for ((node, k), t_go) in &letgo {
        let Some((syn_id, _)) = syn_of_connect.get(k) else { continue };
        let c = &sc.connects[*k];
        let me = sc.addr(*node);
        let (peer, id_send) = if c.node == *node { (sc.addr(c.to), syn_id.wrapping_add(1)) } else { (sc.addr(c.node), *syn_id) };
        let Some(l) = lives.get(&(me, peer, id_send)) else { continue };
        if l.created.is_empty() {
            continue;
        }
        // A process suspend (clock jump) inside the window extends it: nothing ran meanwhile.
        let mut deadline = *t_go + end_bound_ms(sc, *node) * MS;
        for g in &sc.global {
            if let crate::scenario::GlobalOp::Suspend { at_ms, dur_ms } = g {
                if *at_ms * MS >= *t_go && *at_ms * MS <= deadline {
                    deadline += *dur_ms * MS + 1000 * MS;
                }
            }
        }
        if deadline > out.t_end {
            continue;
        }
        judged += 1;
        let ended = l.dropped.iter().map(|(t, _)| *t).find(|t| *t >= l.created[0]);
        match ended {
            Some(te) if te <= deadline => {}
            Some(te) => {
                res.violate(P, "task-ended-late", te, format!("node {} conn {}: application let go at {}, task ended at {} (bound {})", node, k, crate::hist::fmt_t(*t_go), crate::hist::fmt_t(te), crate::hist::fmt_t(deadline)));
                res.violations.last_mut().map(|v| v.node = Some(*node));
            }
            None => {
                let s = l.last_snap;
                res.violate(
                    P,
                    "task-immortal",
                    out.t_end,
                    format!(
                        "node {} conn {}: application let go at {} but the connection task is still alive at the end of the run ({}); last snapshot: {}",
                        node,
                        k,
                        crate::hist::fmt_t(*t_go),
                        crate::hist::fmt_t(out.t_end),
                        s.map(|s| format!("state={} ring={} segs={} rwnd={} tRTO={:?} tINACT={:?} rto_n={}", s.state, s.tx_ring_len, s.segmented_packets, s.last_remote_window, s.t_retransmit, s.t_inactivity, s.rto_retransmissions)).unwrap_or_default()
                    ),
                );
                res.violations.last_mut().map(|v| v.node = Some(*node));
            }
        }
    }

    // (b) connection table consistent with live tasks at the end of the run.
    for n in 0..sc.nodes.len() {
        let addr = sc.addr(n);
        if cancels.iter().any(|(_, cn)| *cn == n) {
            continue; // dispatcher cancelled: table no longer maintained
        }
        // (two connections in opposite directions may share a send id: count instances)
        let live: usize = lives.iter().filter(|((l, _, _), _)| *l == addr).map(|(_, v)| v.created.len().saturating_sub(v.dropped.len())).sum();
        if let Some((ts, streams, _connecting, _)) = last_sock.get(&addr) {
            // The table is only observed when the dispatcher runs; a Shutdown message is
            // processed at the instant it is sent, so at the end of the run they must agree.
            let last_change = lives.iter().filter(|((l, _, _), _)| *l == addr).flat_map(|(_, v)| v.created.iter().copied().chain(v.dropped.iter().map(|d| d.0))).max().unwrap_or(0);
            if *ts >= last_change && *streams != live {
                res.violate(P, "table-size-mismatch", out.t_end, format!("node {}: connection table holds {} entries but {} connection tasks are alive at the end of the run", n, streams, live));
            }
            if *ts < last_change && out.t_end > last_change + 10 * crate::hist::SEC {
                // The dispatcher never ran after the last task change: the slot release message
                // was not delivered/processed.
                if *streams != live {
                    res.violate(P, "slot-not-released", out.t_end, format!("node {}: table holds {} entries, {} tasks alive, dispatcher did not process the release", n, streams, live));
                }
            }
        }
    }

    // (c) silence after task end.
    for ((local, remote, id), l) in &lives {
        for (td, didx) in &l.dropped {
            // next creation of the same key (id reuse / ghost accept)
            let next_created = l.created.iter().copied().find(|t| *t >= *td);
            for (t, ev) in h.evs.iter().skip(*didx) {
                if next_created.is_some_and(|nc| *t >= nc) {
                    break;
                }
                if let Ev::Emit(e) = ev {
                    if e.real && e.src == *local && e.dst == *remote {
                        if let Some(p) = &e.pkt {
                            if p.conn_id == *id && p.typ != codec::ST_SYN && p.typ != codec::ST_RESET {
                                res.violate(P, "emitted-after-task-end", *t, format!("{} emitted {} for connection id {} at {} although its task ended at {}", local, p.short(), id, crate::hist::fmt_t(*t), crate::hist::fmt_t(*td)));
                            }
                        }
                    }
                }
            }
        }
    }

    // (d) no spurious TooManyActiveConnections.
    {
        let mut live_now: HashMap<std::net::SocketAddr, i64> = HashMap::new();
        for (t, ev) in &h.evs {
            match ev {
                Ev::Probe(ProbeEvent::ConnCreated(k)) => *live_now.entry(k.local).or_insert(0) += 1,
                Ev::Probe(ProbeEvent::ConnDropped(k)) => *live_now.entry(k.local).or_insert(0) -= 1,
                Ev::App(a) => {
                    if let (AppKind::ConnectDone, AppRes::Err(e)) = (&a.kind, &a.res) {
                        if e.contains("too many active connections") {
                            let addr = sc.addr(a.node);
                            let live = live_now.get(&addr).copied().unwrap_or(0);
                            let limit = sc.nodes[a.node].opts.max_live() as i64;
                            // The slot is released by a message processed at the same instant the task ends.
                            if live < limit {
                                res.violate(P, "limit-not-released", *t, format!("node {}: connect {} failed with TooManyActiveConnections although only {} of {} connection tasks are alive", a.node, a.conn, live, limit));
                            }
                            res.hit("too_many_active_connections_seen", true);
                        }
                    }
                }
                _ => {}
            }
        }
    }

    // (e) cancellation: all tasks of the node end at that instant; halves then report errors.
    for (tc, n) in &cancels {
        let addr = sc.addr(*n);
        for ((local, _, id), l) in &lives {
            if *local != addr {
                continue;
            }
            for tcreate in &l.created {
                if *tcreate > *tc {
                    continue;
                }
                let end = l.dropped.iter().map(|d| d.0).find(|t| *t >= *tcreate);
                match end {
                    Some(te) if te <= *tc => {}
                    Some(te) => res.violate(P, "cancel-not-prompt", te, format!("node {}: socket token cancelled at {}, connection id {} task ended only at {}", n, crate::hist::fmt_t(*tc), id, crate::hist::fmt_t(te))),
                    None => res.violate(P, "cancel-not-prompt", out.t_end, format!("node {}: socket token cancelled at {}, connection id {} task never ended", n, crate::hist::fmt_t(*tc), id)),
                }
            }
        }
        for (t, a) in h.apps() {
            if a.node != *n || t <= *tc || a.conn >= 1000 {
                continue;
            }
            match (&a.kind, &a.res) {
                (AppKind::Write { .. }, AppRes::Ok(_)) => res.violate(P, "write-ok-after-cancel", t, format!("node {}: write succeeded at {} after the socket was cancelled at {}", n, crate::hist::fmt_t(t), crate::hist::fmt_t(*tc))),
                (AppKind::Read { .. }, AppRes::Eof) => {
                    // EOF needs a delivered FIN
                    let fin = h.delivers().any(|(td, d)| td <= t && d.dst == addr && d.pkt.as_ref().is_some_and(|p| p.typ == codec::ST_FIN));
                    if !fin {
                        res.violate(P, "eof-after-cancel-without-fin", t, format!("node {}: read returned EOF at {} after cancellation without any delivered FIN", n, crate::hist::fmt_t(t)));
                    }
                }
                _ => {}
            }
        }
    }

    // (e') "all stream halves then report errors": a call on a stream half that is pending when
    // the token is cancelled, or is made afterwards, returns; it does not wait for ever.
    for (tc, n) in &token_cancels {
        if out.t_end < *tc + crate::hist::SEC {
            continue;
        }
        let mut pending: HashMap<(usize, Half, u8), T> = HashMap::new();
        for (t, a) in h.apps() {
            if a.node != *n || a.conn >= 1000 {
                continue;
            }
            let class = match &a.kind {
                AppKind::ReadStart { .. } | AppKind::Read { .. } => 0,
                AppKind::WriteBlocked { .. } | AppKind::Write { .. } => 1,
                AppKind::FlushStart | AppKind::Flush => 2,
                AppKind::ShutdownStart | AppKind::Shutdown => 3,
                _ => continue,
            };
            if matches!(a.kind, AppKind::ReadStart { .. } | AppKind::WriteBlocked { .. } | AppKind::FlushStart | AppKind::ShutdownStart) {
                pending.insert((a.conn, a.half, class), t);
            } else {
                pending.remove(&(a.conn, a.half, class));
            }
        }
        let mut p: Vec<_> = pending.into_iter().collect();
        p.sort_by_key(|((c, h, k), t)| (*c, *h == Half::W, *k, *t));
        for ((conn, half, class), t0) in p {
            let name = ["read", "write", "flush", "shutdown"][class as usize];
            res.violate(P, "call-hangs-after-cancel", out.t_end, format!("node {}: {} on stream {} ({:?} half) pending since {} never returned although the socket's token was cancelled at {} (run ended at {})", n, name, conn, half, crate::hist::fmt_t(t0), crate::hist::fmt_t(*tc), crate::hist::fmt_t(out.t_end)));
        }
    }

    let total_created: usize = lives.values().map(|l| l.created.len()).sum();
    res.probe("connection_tasks_created", total_created as u64);
    res.probe("letgo_judged", judged);
    res.hit("closing_packet_lost", lost_closing);
    res.hit("cancel_or_kill", !cancels.is_empty());
    res.hit("task_failed_with_error", lives.values().any(|l| l.finished_err.is_some()));
    res.relevant = lost_closing && judged > 0;
    res
}
