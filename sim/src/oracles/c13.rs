//! C13 — connect/accept pair up one-to-one, in arrival order, with a bounded backlog; abandoned
//! calls release what they reserved. One listener (node 0), many connector sockets.
use std::collections::{BTreeMap, HashMap, HashSet};
use std::net::SocketAddr;

use librqbit_utp::verif::ProbeEvent;

use super::OracleResult;
use crate::{
    codec,
    hist::{AppKind, AppRes, Ev, T},
    scenario::Scenario,
    world::RunOutput,
};

pub const P: &str = "C13";
const BACKLOG: usize = 32;
const SLOTS_PER_ADDR: usize = 4;

pub fn check(sc: &Scenario, out: &RunOutput) -> OracleResult {
    let mut res = OracleResult::default();
    let h = &out.hist;
    let loss_free = sc.param("loss_free") == Some(1);
    let accept_cancels = sc.param("accept_cancels").unwrap_or(0);
    let l = sc.addr(0);

    // (2) wired to each other: per-connection stream oracle with distinct keys
    let c01 = super::c01::check(sc, out);
    for mut v in c01.violations {
        v.property = P;
        v.tag = match v.tag {
            "content-mismatch" => "paired-streams-carry-wrong-bytes",
            "read-more-than-written" => "paired-stream-read-more-than-written",
            t => t,
        };
        res.violations.push(v);
    }

    // application history
    let mut connect_start: BTreeMap<usize, (T, usize)> = BTreeMap::new(); // k -> (t, log idx)
    let mut connect_done: BTreeMap<usize, (T, usize, Result<(), String>)> = BTreeMap::new();
    let mut connect_cancel: BTreeMap<usize, T> = BTreeMap::new();
    let mut accept_start: BTreeMap<usize, (T, usize)> = BTreeMap::new();
    let mut accept_done: BTreeMap<usize, (T, usize, bool)> = BTreeMap::new();
    let mut accept_cancel: BTreeMap<usize, T> = BTreeMap::new();
    let mut paired: BTreeMap<usize, (usize, T, usize)> = BTreeMap::new(); // k -> (j, t, idx)
    let mut pair_of_accept: BTreeMap<usize, usize> = BTreeMap::new();
    for (idx, (t, ev)) in h.evs.iter().enumerate() {
        let Ev::App(a) = ev else { continue };
        let t = *t;
        match (&a.kind, &a.res) {
            (AppKind::ConnectStart, _) => {
                connect_start.insert(a.conn, (t, idx));
            }
            (AppKind::ConnectDone, AppRes::Ok(_)) => {
                connect_done.insert(a.conn, (t, idx, Ok(())));
            }
            (AppKind::ConnectDone, AppRes::Err(e)) => {
                connect_done.insert(a.conn, (t, idx, Err(e.clone())));
            }
            (AppKind::Cancel, _) if a.conn < 1000 => {
                connect_cancel.insert(a.conn, t);
            }
            (AppKind::Cancel, _) => {
                accept_cancel.insert(a.conn - 1000, t);
            }
            (AppKind::AcceptStart, _) => {
                accept_start.insert(a.conn - 1000, (t, idx));
            }
            (AppKind::AcceptDone, r) => {
                accept_done.insert(a.conn - 1000, (t, idx, matches!(r, AppRes::Ok(_))));
                // (with one connect and one accept the harness does not read a token)
                if sc.connects.len() <= 1 && sc.accepts.len() <= 1 && matches!(r, AppRes::Ok(_)) {
                    paired.insert(0, (0, t, idx));
                    pair_of_accept.insert(0, 0);
                }
            }
            (AppKind::Note(n), AppRes::Ok(k)) if n.contains(" paired with connect ") => {
                let j = a.conn - 1000;
                if let Some((j0, t0, _)) = paired.get(k) {
                    res.violate(P, "connect-handed-to-two-accepts", t, format!("connect {} surfaced at accept {} ({}) and again at accept {} ({})", k, j0, crate::hist::fmt_t(*t0), j, crate::hist::fmt_t(t)));
                } else {
                    paired.insert(*k, (j, t, idx));
                    pair_of_accept.insert(j, *k);
                }
                if a.node != sc.connects[*k].to {
                    res.violate(P, "accepted-on-wrong-socket", t, format!("connect {} to node {} surfaced on node {}", k, sc.connects[*k].to, a.node));
                }
            }
            (AppKind::Note(n), AppRes::Err(e)) if n.contains("unidentified") && e.contains("matches no connector") => {
                res.violate(P, "accepted-stream-with-foreign-token", t, format!("{} ({})", n, e));
            }
            _ => {}
        }
    }

    // (1) one-to-one: every successful connect surfaces at exactly one accept (loss-free runs;
    // an accept call abandoned at the instant of the hand-over may take a stream with it)
    if loss_free {
        let unpaired: Vec<usize> = connect_done.iter().filter(|(k, (_, _, r))| r.is_ok() && !paired.contains_key(k)).map(|(k, _)| *k).collect();
        if unpaired.len() as i64 > accept_cancels {
            let k = unpaired[0];
            res.violate(
                P,
                "successful-connect-without-accepted-stream",
                connect_done[&k].0,
                format!("loss-free run: connects {:?} returned Ok but their streams never surfaced at an accept call ({} accept calls were abandoned in this run)", unpaired, accept_cancels),
            );
        }
    }

    // (2') wired to each other and staying so: on a network that loses nothing (duplicates and
    // reordering at most) a connection that both applications hold - the connect returned, the
    // stream surfaced at an accept call, nobody abandoned it - carries its conversation to the
    // end; no call on either of its streams fails.
    if sc.param("drop_free") == Some(1) && scripts_as_generated(sc) {
        let mut failed: BTreeMap<usize, (T, usize, String)> = BTreeMap::new();
        for (t, a) in h.apps() {
            if a.conn >= 1000 {
                continue;
            }
            if let (AppKind::Read { .. } | AppKind::Write { .. } | AppKind::Flush | AppKind::Shutdown, AppRes::Err(e)) = (&a.kind, &a.res) {
                failed.entry(a.conn).or_insert((t, a.node, e.clone()));
            }
        }
        for (k, (t, node, e)) in failed {
            let held = connect_done.get(&k).is_some_and(|(_, _, r)| r.is_ok()) && paired.contains_key(&k) && !connect_cancel.contains_key(&k);
            if held {
                res.violate(P, "paired-connection-torn-apart", t, format!("nothing was lost on this network, connect {} returned Ok and surfaced at accept {}, yet a call on its stream at node {} failed at {}: {}", k, paired[&k].0, node, crate::hist::fmt_t(t), e));
            }
        }
    }

    // wire view at the listener: distinct SYNs in order of first delivery
    let mut syn_arrival: Vec<(T, usize, SocketAddr, u16, u16)> = vec![]; // (t, idx, src, syn id, syn seq)
    let mut seen_syn: HashSet<(SocketAddr, u16)> = HashSet::new();
    let mut resets: Vec<(T, SocketAddr, u16, u16, usize)> = vec![]; // (t, dst, conn id, ack, backlog just before)
    let mut created_at_l: Vec<(T, usize, SocketAddr, u16)> = vec![]; // (t, idx, remote, id_send)
    let mut max_cached = 0usize;
    let mut last_cached = 0usize;
    let mut dup_syn = false;
    for (idx, (t, ev)) in h.evs.iter().enumerate() {
        match ev {
            Ev::Deliver(d) if d.dst == l && !d.corrupted => {
                if let Some(p) = &d.pkt {
                    if p.typ == codec::ST_SYN {
                        if seen_syn.insert((d.src, p.conn_id)) {
                            syn_arrival.push((*t, idx, d.src, p.conn_id, p.seq));
                        } else {
                            dup_syn = true;
                        }
                    }
                }
            }
            Ev::Emit(e) if e.src == l && e.real => {
                if let Some(p) = &e.pkt {
                    if p.typ == codec::ST_RESET {
                        // (the backlog as of the last socket snapshot before this emission, in
                        // log order: later snapshots of the same instant may already show a
                        // request handed over)
                        resets.push((*t, e.dst, p.conn_id, p.ack, last_cached));
                    }
                }
            }
            Ev::Probe(ProbeEvent::ConnCreated(k)) if k.local == l => created_at_l.push((*t, idx, k.remote, k.conn_id_send)),
            Ev::Probe(ProbeEvent::Socket(s)) if s.local == l => {
                max_cached = max_cached.max(s.cached_syns);
                last_cached = s.cached_syns;
                if s.cached_syns > BACKLOG {
                    res.violate(P, "backlog-exceeds-bound", *t, format!("the listener holds {} unaccepted connection requests (bound {})", s.cached_syns, BACKLOG));
                }
            }
            _ => {}
        }
    }
    res.probe("max_backlog_seen", max_cached as u64);

    // (4) excess refused with a reset - and only excess: a RESET answering a SYN is emitted only
    // while the backlog is full
    let mut refused = 0u64;
    for (t, dst, cid, ack, cached_then) in &resets {
        let Some((_, _, _, _, _)) = syn_arrival.iter().find(|(_, _, src, id, seq)| src == dst && id == cid && seq == ack) else { continue };
        refused += 1;
        let cached_then = *cached_then;
        if cached_then < BACKLOG {
            res.violate(P, "reset-although-backlog-not-full", *t, format!("the listener refused the SYN of {} (connection id {}) with a RESET while it held only {} of {} unaccepted requests", dst, cid, cached_then, BACKLOG));
        }
    }
    res.probe("syns_refused_with_reset", refused);

    // (5) conservation in loss-free, duplicate-free runs: every SYN that reached the listener was
    // accepted, is still queued, or was refused - none vanished
    if loss_free && !dup_syn {
        let accepted: HashSet<(SocketAddr, u16)> = created_at_l.iter().map(|(_, _, r, id)| (*r, *id)).collect();
        let refused_set: HashSet<(SocketAddr, u16)> = resets.iter().map(|(_, d, c, _, _)| (*d, *c)).collect();
        let lost: Vec<&(T, usize, SocketAddr, u16, u16)> = syn_arrival.iter().filter(|(_, _, src, id, _)| !accepted.contains(&(*src, *id)) && !refused_set.contains(&(*src, *id))).collect();
        if lost.len() > last_cached {
            let (t, _, src, id, _) = lost[0];
            res.violate(
                P,
                "connection-request-vanished",
                *t,
                format!("{} SYNs reached the listener and were neither accepted nor refused, but only {} are still queued at the end of the run (first: from {} connection id {} at {})", lost.len(), last_cached, src, id, crate::hist::fmt_t(*t)),
            );
        }
    }

    // (3a) hand-over in arrival order: the k-th stream created at the listener belongs to the
    // k-th SYN that arrived (among those that were ever accepted). Judged when the network
    // delivered no SYN twice (a duplicate is a second, later arrival of the same request).
    if !dup_syn {
        let accepted_order: Vec<(SocketAddr, u16)> = created_at_l.iter().map(|(_, _, r, id)| (*r, *id)).collect();
        let arrival_pos: HashMap<(SocketAddr, u16), usize> = syn_arrival.iter().enumerate().map(|(i, (_, _, s, id, _))| ((*s, *id), i)).collect();
        let mut last_pos: Option<(usize, (SocketAddr, u16))> = None;
        let mut judged = 0u64;
        for key in &accepted_order {
            let Some(pos) = arrival_pos.get(key) else { continue };
            if let Some((lp, lk)) = last_pos {
                judged += 1;
                if *pos < lp {
                    res.violate(
                        P,
                        "requests-accepted-out-of-arrival-order",
                        created_at_l.iter().find(|(_, _, r, id)| (*r, *id) == *key).map(|x| x.0).unwrap_or(0),
                        format!("the request of {} id {} (arrival #{}) was handed to an accept call after the request of {} id {} (arrival #{})", key.0, key.1, pos, lk.0, lk.1, lp),
                    );
                }
            }
            last_pos = Some((*pos, *key));
        }
        res.probe("hand_overs_judged_for_order", judged);
    }
    // (3b) accept calls are served in the order they were made
    {
        let mut order: Vec<(usize, usize)> = accept_done.iter().filter(|(_, (_, _, ok))| *ok).map(|(j, (_, idx, _))| (*idx, *j)).collect();
        order.sort();
        let mut last_start: Option<(usize, usize)> = None;
        for (_, j) in &order {
            let Some((_, sidx)) = accept_start.get(j) else { continue };
            if let Some((ls, lj)) = last_start {
                if *sidx < ls {
                    res.violate(P, "accept-calls-served-out-of-order", accept_done[j].0, format!("accept call {} (made earlier) was served after accept call {} (made later)", j, lj));
                }
            }
            last_start = Some((*sidx, *j));
        }
    }

    // (6) abandoned calls release what they reserved
    // (6a) a connect that fails for lack of a connecting slot although fewer than 4 of the
    // socket's connects to that address are pending
    for (k, (t, idx, r)) in &connect_done {
        let Err(e) = r else { continue };
        if e.contains("too many active") {
            continue;
        }
        let node = sc.connects[*k].node;
        // pending at that instant: started before, neither done nor cancelled before
        let pending = connect_start
            .iter()
            .filter(|(k2, (_, sidx))| **k2 != *k && sc.connects[**k2].node == node && *sidx < *idx)
            .filter(|(k2, _)| connect_done.get(k2).is_none_or(|(_, didx, _)| *didx > *idx) && connect_cancel.get(k2).is_none_or(|tc| *tc >= *t))
            .count();
        let at_once = connect_start.get(k).is_some_and(|(ts, _)| *ts == *t);
        if at_once && pending < SLOTS_PER_ADDR && loss_free {
            res.violate(P, "connect-starved-of-a-slot", *t, format!("connect {} on node {} failed at once with '{}' although only {} of its socket's connects to the listener were pending (limit {})", k, node, e, pending, SLOTS_PER_ADDR));
        }
        res.hit("connect_failed_for_lack_of_slot", at_once && pending >= SLOTS_PER_ADDR);
    }
    // (6a') a connect call that fails at once has reserved nothing - in particular it has not
    // put a SYN on the wire (such a SYN opens a connection at the listener that no connect call
    // answers for)
    for n in 1..sc.nodes.len() {
        let me = sc.addr(n);
        let syns: HashSet<u16> = h.emits().filter(|(_, e)| e.src == me && e.dst == l && e.real).filter_map(|(_, e)| e.pkt.as_ref()).filter(|p| p.typ == codec::ST_SYN).map(|p| p.conn_id).collect();
        let started = connect_start.keys().filter(|k| sc.connects[**k].node == n).count();
        let failed_at_once = connect_done.iter().filter(|(k, (t, _, r))| sc.connects[**k].node == n && r.is_err() && connect_start.get(k).is_some_and(|(ts, _)| ts == t)).count();
        if syns.len() + failed_at_once > started {
            res.violate(P, "syn-sent-for-a-connect-that-failed-at-once", out.t_end, format!("node {}: {} connect calls were made, {} of them failed at the instant of the call, yet {} distinct SYNs went out", n, started, failed_at_once, syns.len()));
        }
    }
    // (6b) at the end of the run no connecting slot is held by a finished or abandoned connect
    {
        let mut last_connecting: HashMap<SocketAddr, usize> = HashMap::new();
        for (_, ev) in &h.evs {
            if let Ev::Probe(ProbeEvent::Socket(s)) = ev {
                last_connecting.insert(s.local, s.connecting);
            }
        }
        for n in 1..sc.nodes.len() {
            let still_pending = connect_start.iter().filter(|(k, _)| sc.connects[**k].node == n && !connect_done.contains_key(k) && !connect_cancel.contains_key(k)).count();
            if let Some(c) = last_connecting.get(&sc.addr(n)) {
                if *c > still_pending {
                    res.violate(P, "connecting-slot-leaked", out.t_end, format!("node {}: {} connecting slots are held at the end of the run but only {} connect calls are still pending", n, c, still_pending));
                }
            }
        }
    }
    // (6c) loss-free: a surplus accept call still waiting at the end means no request may be
    // left in the backlog (an abandoned accept must not have swallowed or blocked it)
    if loss_free {
        let waiting = accept_start.keys().filter(|j| !accept_done.contains_key(j) && !accept_cancel.contains_key(j)).count();
        let live_full = h
            .evs
            .iter()
            .filter_map(|(_, ev)| match ev {
                Ev::Probe(ProbeEvent::Socket(s)) if s.local == l => Some(s.streams >= s.max_streams),
                _ => None,
            })
            .last()
            .unwrap_or(false);
        if waiting > 0 && last_cached > 0 && !live_full {
            res.violate(P, "request-queued-while-accept-waits", out.t_end, format!("at the end of the run {} accept calls are waiting and {} connection requests sit in the backlog (connection limit not reached)", waiting, last_cached));
        }
    }

    res.probe("connects_ok", connect_done.values().filter(|x| x.2.is_ok()).count() as u64);
    res.probe("connects_cancelled", connect_cancel.len() as u64);
    res.probe("accepts_cancelled", accept_cancel.len() as u64);
    res.hit("backlog_filled", max_cached >= BACKLOG);
    res.hit("duplicate_syn_delivered", dup_syn);
    res.relevant = paired.len() >= 2;
    res
}


/// The conversation scripts are the ones the generator wrote (a minimiser that edits them leaves
/// the space in which 'every conversation completes' can be expected).
fn scripts_as_generated(sc: &Scenario) -> bool {
    sc.param("app_scripts_hash").is_none_or(|h| h == sc.app_scripts_hash())
}
