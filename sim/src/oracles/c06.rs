//! C06 — retransmission discipline: timeout retransmission with doubling back-off inside
//! [200 ms, 60 s], fast retransmit on duplicate-ACK / SACK evidence, bounded number of
//! retransmissions, nothing acknowledged is retransmitted, stable content per sequence number.
//! Wire oracles; the timeout clauses use the end-of-poll snapshots (H2) and estimator events (H5)
//! only to identify *which* emissions are timeout retransmissions and what the RTO was.
use std::collections::BTreeMap;

use librqbit_utp::verif::{CcCall, ProbeEvent, RtoCall};

use super::{
    pw::{covers, PeerWorld, X},
    OracleResult,
};
use crate::{
    codec,
    hist::{AppKind, AppRes, MS, T},
    scenario::Scenario,
    util::seq_diff,
    world::RunOutput,
};

pub const P: &str = "C06";

struct Seg {
    /// emissions: (t, len, was a timeout retransmission)
    tx: Vec<(T, usize, bool)>,
    first_payload: Vec<u8>,
    acked_at: Option<T>,
    /// larger than every payload acknowledged before its first emission (an MTU probe)
    probe: bool,
    ever_acked_version_len: Option<usize>,
}

pub fn check(sc: &Scenario, out: &RunOutput) -> OracleResult {
    let mut res = OracleResult::default();
    let Some(w) = PeerWorld::new(sc, out) else {
        res.inconclusive = true;
        return res;
    };
    let evs = w.events_effective();
    let max_retx = sc.nodes[0].opts.max_retx();
    let backpressure = w.h.fault_counts.get("backpressure").copied().unwrap_or(0) > 0;

    // Which polls were retransmission-timer expiries? (rto_retransmissions steps between two
    // consecutive end-of-poll snapshots; works for probes too.)
    let mut rto_poll = vec![false; evs.len()];
    {
        let mut last_n = 0usize;
        let mut start = 0usize;
        for (i, (_, _, x)) in evs.iter().enumerate() {
            if let X::Snap(s) = x {
                if s.rto_retransmissions > last_n {
                    for f in rto_poll.iter_mut().take(i + 1).skip(start) {
                        *f = true;
                    }
                }
                last_n = s.rto_retransmissions;
                start = i + 1;
            }
        }
    }

    // rto_retransmissions at the end of the poll each event belongs to
    let mut rto_at_poll_end = vec![0usize; evs.len()];
    {
        let mut start = 0usize;
        for (i, (_, _, x)) in evs.iter().enumerate() {
            if let X::Snap(s) = x {
                for f in rto_at_poll_end.iter_mut().take(i + 1).skip(start) {
                    *f = s.rto_retransmissions;
                }
                start = i + 1;
            }
        }
    }

    let mut segs: BTreeMap<u16, Seg> = BTreeMap::new();
    let mut fin: Option<(u16, Vec<(T, bool)>, Option<T>)> = None; // seq, emissions, acked
    let mut max_acked_len: usize = w.mss_floor;
    let mut current_rto_min: T = 200 * MS;
    let mut rto_now: T = 300 * MS;
    let mut dup_state: (Option<u16>, u32) = (None, 0); // (ack number, consecutive duplicates)
    let mut sack_acks_in_row: u32 = 0;
    let mut in_rto_mode = false;
    let mut recovering = false;
    let mut last_flight: usize = 0;
    let mut last_rwnd: Option<u32> = None;
    let w_mss_floor = w.mss_floor;
    let mut timeouts = 0u64;
    let mut fast_rtx = 0u64;
    let mut cap_hit = false;
    let mut app_error = false;
    let mut hostile = false;
    let mut next_unsent: Option<u16> = w.e_first_seq;
    let mut task_over: Option<T> = None;
    let mut last_new_ack_t: T = 0;
    // (c) fast retransmit
    let mut sack_seen = false;
    let mut plain_dups: u32 = 0;
    let mut last_plain: Option<(u16, u32)> = None; // (ack, wnd) of the previous delivered packet
    let mut sack_in_row: u32 = 0;
    let mut pending_fast: Option<(T, u16, &'static str)> = None;
    let mut rto_recovery_point: Option<u16> = None;
    let mut fast_triggers = 0u64;
    // model of when the retransmission timer was last (re)started (RFC 6298 5.1/5.3/5.6): an ACK
    // of new data restarts it (or stops it when nothing sent is left un-acked), a transmission
    // starts it only when it is not running, an expiry restarts it
    let mut max_ack: Option<u16> = None;
    let mut reader_dropped = false;
    let mut rec_point: Option<u16> = None;
    let mut own_fin_out: Option<u16> = None;
    let mut leave_due: Option<T> = None;
    let mut recovery_entries = 0u64;
    let mut timer_start: Option<T> = None;
    // last ACK of new data that left nothing sent un-acknowledged (the timer should be off)
    let mut idle_ack_t: Option<T> = None;

    for (i, (t, _, x)) in evs.iter().enumerate() {
        let t = *t;
        if let Some((tt, seq, why)) = pending_fast {
            if t > tt {
                if task_over.is_none() {
                    res.violate(P, "fast-retransmit-missing", tt, format!("{} delivered at {} with seq {} as first un-acknowledged segment, no timeout recovery in progress: it was not re-emitted at that instant", why, crate::hist::fmt_t(tt), seq));
                }
                pending_fast = None;
            }
        }
        match x {
            // loss recovery is entered with everything sent so far as its recovery point and is
            // left by the acknowledgement that covers that point (or by a timeout)
            X::Probe(ProbeEvent::Cc { key, call, .. }) if key.is_some_and(|k| k.local == w.e) => match call {
                CcCall::OnEnterRecovery => {
                    // (a FIN that is already out occupies the number after the last data segment)
                    rec_point = match (next_unsent.map(|n| n.wrapping_sub(1)), own_fin_out) {
                        (Some(h), Some(f)) if seq_diff(f, h) > 0 => Some(f),
                        (None, Some(f)) => Some(f),
                        (h, _) => h,
                    };
                    leave_due = None;
                    recovery_entries += 1;
                }
                CcCall::OnRecovered { .. } | CcCall::OnRto => {
                    rec_point = None;
                    leave_due = None;
                }
                _ => {}
            },
            X::Probe(ProbeEvent::Rto { key, call, rto_after, .. }) => {
                if key.is_some_and(|k| k.local == w.e) {
                    rto_now = rto_after.as_nanos() as T;
                    if matches!(call, RtoCall::Sample(_)) {
                        current_rto_min = current_rto_min.min(rto_now).max(200 * MS);
                    }
                }
            }
            X::Snap(s) => {
                if let Some(tl) = leave_due {
                    if s.recovering && !hostile && s.finished.is_none() {
                        res.violate(P, "recovery-not-left-at-full-ack", tl, format!("loss recovery was entered with seq {:?} as the highest sent; an acknowledgement covering it was delivered at {} but the connection is still in recovery at the end of that poll (duplicate ACKs are not counted while it lasts: the next loss waits for the timeout)", rec_point, crate::hist::fmt_t(tl)));
                    }
                    leave_due = None;
                    rec_point = None;
                }
                if !s.recovering {
                    rec_point = None;
                }
                in_rto_mode = s.rto_retransmissions > 0;
                // the acknowledgement that ends a recovery episode is not a duplicate: counting
                // starts afresh after it (RFC 6582 full acknowledgement)
                if recovering && !s.recovering {
                    plain_dups = 0;
                    sack_in_row = 0;
                }
                recovering = s.recovering;
                last_flight = s.flight_size;
                last_rwnd = Some(s.last_remote_window);
                if s.finished.is_some() && task_over.is_none() {
                    task_over = Some(t);
                    if let Some(Some(e)) = &s.finished {
                        if e.contains("max number of retransmissions") {
                            cap_hit = true;
                        }
                    }
                }
            }
            X::App(a) => {
                if matches!(a.res, AppRes::Err(_)) && !matches!(a.kind, AppKind::Mismatch { .. }) {
                    app_error = true;
                }
                if matches!(a.kind, AppKind::DropHalf) && a.half == crate::hist::Half::R {
                    reader_dropped = true;
                }
            }
            X::DelivE(p, d) => {
                if d.corrupted || p.typ == codec::ST_SYN || p.typ == codec::ST_RESET {
                    continue;
                }
                if let Some(n) = next_unsent {
                    let fin_ok = fin.as_ref().is_some_and(|(f, _, _)| p.ack == *f);
                    if seq_diff(p.ack, n) >= 0 && !fin_ok {
                        hostile = true;
                    }
                    if let Some(bits) = p.sack_bits() {
                        for (k, b) in bits.iter().enumerate() {
                            if *b && seq_diff(p.ack.wrapping_add(2).wrapping_add(k as u16), n) >= 0 {
                                hostile = true;
                            }
                        }
                    }
                }
                let mut newly = false;
                for (s, g) in segs.iter_mut() {
                    if g.acked_at.is_none() && covers(p, *s) {
                        g.acked_at = Some(t);
                        let l = g.tx.last().map(|x| x.1).unwrap_or(0);
                        g.ever_acked_version_len = Some(l);
                        // proven size: the cut the sender holds when the ACK arrives (a popped
                        // probe's larger first version proves nothing to the sender)
                        max_acked_len = max_acked_len.max(l);
                        newly = true;
                    }
                }
                if let Some((f, _, a)) = fin.as_mut() {
                    if a.is_none() && p.ack == *f {
                        *a = Some(t);
                        newly = true;
                    }
                }
                if newly {
                    last_new_ack_t = t;
                    let outstanding = segs.values().any(|g| g.acked_at.is_none() && !g.tx.is_empty()) || fin.as_ref().is_some_and(|(_, _, a)| a.is_none());
                    timer_start = outstanding.then_some(t);
                    idle_ack_t = (!outstanding).then_some(t);
                }
                // the segment a fast retransmit was due for got acknowledged by a later packet of
                // the same batch: nothing left to retransmit
                if pending_fast.is_some_and(|(_, s, _)| segs.get(&s).is_some_and(|g| g.acked_at.is_some())) {
                    pending_fast = None;
                }
                // (the acknowledgement that completes a timeout recovery is itself still ignored
                // for duplicate counting: counting starts with the next one)
                let was_in_rto_recovery = rto_recovery_point.is_some();
                if let Some(rp) = rto_recovery_point {
                    if seq_diff(p.ack, rp) >= 0 {
                        rto_recovery_point = None;
                        plain_dups = 0;
                        sack_in_row = 0;
                    }
                }
                if let Some(rp) = rec_point {
                    if seq_diff(p.ack, rp) >= 0 && leave_due.is_none() {
                        leave_due = Some(t);
                    }
                }
                // (c) duplicate-ACK / SACK evidence
                {
                    let first_unacked = segs.iter().filter(|(_, g)| g.acked_at.is_none() && !g.tx.is_empty()).map(|(s, _)| *s).min_by_key(|s| seq_diff(*s, w.e_first_seq.unwrap_or(*s)));
                    let has_sack = p.sack_bits().is_some();
                    sack_seen |= has_sack;
                    let mut trigger: Option<&'static str> = None;
                    // a stale acknowledgement (older than the greatest one received: a reordered
                    // ACK) is neither a duplicate nor fresh selective evidence; the endpoint's own
                    // counting starts afresh after it, so does this one (lenient)
                    let stale = max_ack.is_some_and(|m| seq_diff(p.ack, m) < 0);
                    if !stale {
                        max_ack = Some(p.ack);
                    }
                    if stale {
                        plain_dups = 0;
                        sack_in_row = 0;
                        // (the next fresh ACK is the new baseline, not yet a duplicate)
                        last_plain = None;
                    } else if p.typ == codec::ST_STATE && first_unacked.is_some() {
                        if has_sack {
                            sack_in_row += 1;
                            let sacked_sent = p.sack_bits().unwrap().iter().enumerate().filter(|(k, b)| **b && segs.contains_key(&p.ack.wrapping_add(2).wrapping_add(*k as u16))).count();
                            if sacked_sent >= 3 {
                                trigger = Some("an ACK selectively acknowledging 3 or more packets");
                            } else if sack_in_row == 3 {
                                trigger = Some("the third consecutive ACK carrying a selective ACK");
                            }
                        } else {
                            sack_in_row = 0;
                            if !sack_seen {
                                if last_plain == Some((p.ack, p.wnd)) && !newly {
                                    plain_dups += 1;
                                    if plain_dups == 3 {
                                        trigger = Some("the third duplicate ACK");
                                    }
                                } else {
                                    plain_dups = 0;
                                }
                            }
                        }
                    } else {
                        if !has_sack {
                            sack_in_row = 0;
                        }
                        plain_dups = 0;
                    }
                    if !stale {
                        last_plain = Some((p.ack, p.wnd));
                    }
                    if let (Some(why), Some(fu)) = (trigger, first_unacked) {
                        fast_triggers += 1;
                        // a size probe that expired was taken back (popped, un-sent): nothing is
                        // in flight for the sender although the wire shows the sequence number
                        let popped_probe = last_flight == 0 && segs.get(&fu).is_some_and(|g| g.probe);
                        let busy = in_rto_mode || recovering || was_in_rto_recovery || hostile || backpressure || popped_probe;
                        if !busy && pending_fast.is_none() {
                            pending_fast = Some((t, fu, why));
                        }
                    }
                }
                // duplicate-ACK bookkeeping (ST_STATE only, same ack, nothing new, data outstanding)
                let unacked_exists = segs.values().any(|g| g.acked_at.is_none());
                if p.typ == codec::ST_STATE && unacked_exists && !newly {
                    if p.sack_bits().is_some() {
                        sack_acks_in_row += 1;
                    }
                    if dup_state.0 == Some(p.ack) {
                        dup_state.1 += 1;
                    } else {
                        dup_state = (Some(p.ack), 0);
                    }
                } else {
                    dup_state = (Some(p.ack), 0);
                    if p.sack_bits().is_none() {
                        sack_acks_in_row = 0;
                    }
                }
                let _ = (sack_acks_in_row, &dup_state);
            }
            X::EmitE(p, _) => match p.typ {
                codec::ST_DATA => {
                    let len = p.payload.len();
                    if next_unsent.is_none_or(|n| seq_diff(p.seq, n) >= 0) {
                        next_unsent = Some(p.seq.wrapping_add(1));
                    }
                    let is_rto = rto_poll[i];
                    if pending_fast.is_some_and(|(_, s, _)| s == p.seq) {
                        pending_fast = None;
                    }
                    if is_rto {
                        // a timeout: recovery is in progress until everything sent so far is acked
                        rto_recovery_point = next_unsent.map(|n| n.wrapping_sub(1));
                    }
                    // (a segment is marked as a probe when it is CUT - possibly long before it is
                    // first sent, while the proven size was still smaller - so only a segment no
                    // larger than the smallest segment size of the link is certainly not one)
                    let g = segs.entry(p.seq).or_insert_with(|| Seg { tx: vec![], first_payload: p.payload.clone(), acked_at: None, probe: len > w.mss_floor, ever_acked_version_len: None });
                    let retransmission = !g.tx.is_empty();
                    if hostile {
                        g.tx.push((t, len, is_rto));
                        continue;
                    }
                    // (e) never retransmit what was acknowledged strictly before
                    if let Some(ta) = g.acked_at {
                        if ta < t && !backpressure {
                            res.violate(P, "retransmitted-after-ack", t, format!("seq {} (len {}) emitted at {} although it was acknowledged at {}", p.seq, len, crate::hist::fmt_t(t), crate::hist::fmt_t(ta)));
                            if let Some(v) = res.violations.last_mut() {
                                if v.tag == "retransmitted-after-ack" && v.t == t {
                                    v.offset = Some(p.seq as u64);
                                }
                            }
                        }
                    }
                    // (f) stable content; only a never-acknowledged probe may be split
                    if retransmission {
                        let first_len = g.first_payload.len();
                        if len == first_len {
                            if p.payload != g.first_payload {
                                res.violate(P, "content-changed", t, format!("seq {} re-emitted with the same length {} but different bytes", p.seq, len));
                            }
                        } else {
                            let last_len = g.tx.last().unwrap().1;
                            if len != last_len {
                                // a re-cut: allowed only for a never-acked probe; the two cuts
                                // start at the same stream offset, so one is a prefix of the other
                                let n = len.min(first_len);
                                let prefix_ok = p.payload[..n] == g.first_payload[..n];
                                if !g.probe {
                                    res.violate(P, "non-probe-resegmented", t, format!("seq {} first sent with {} bytes (not larger than the smallest segment size {}: cannot be a size probe) re-emitted with {} bytes", p.seq, first_len, w.mss_floor, len));
                                } else if !prefix_ok {
                                    res.violate(P, "probe-recut-not-a-prefix", t, format!("probe seq {} first sent with {} bytes re-emitted with {} bytes: the common prefix differs", p.seq, first_len, len));
                                }
                            } else if len <= first_len && p.payload[..] != g.first_payload[..len] {
                                res.violate(P, "content-changed", t, format!("seq {} re-emitted ({} bytes) with bytes that differ from its first emission", p.seq, len));
                            }
                        }
                    }
                    // (a)/(b) timeout retransmissions: not earlier than the smallest RTO in effect,
                    // successive gaps for one segment double (within 200 ms .. 60 s)
                    if retransmission && is_rto {
                        timeouts += 1;
                        let (tp, _, _) = *g.tx.last().unwrap();
                        let gap = t - tp.max(last_new_ack_t.min(t));
                        let _ = gap;
                        let since_last_tx = t - tp;
                        if let Some(ts) = timer_start {
                            if t - ts + MS < 200 * MS {
                                res.violate(P, "timeout-earlier-than-min-rto", t, format!("seq {} timeout-retransmitted {} ms after its previous transmission and only {} ms after the retransmission timer can last have been (re)started at {} (RTO is never below 200 ms); last ACK that left nothing in flight: {:?}", p.seq, since_last_tx / MS, (t - ts) / MS, crate::hist::fmt_t(ts), idle_ack_t.map(crate::hist::fmt_t)));
                                // F15 context: the timer was left running by an ACK that emptied
                                // the pipe at least one minimum RTO before this expiry
                                if idle_ack_t.is_some_and(|ta| ta <= ts && t - ta + MS >= 200 * MS) {
                                    if let Some(v) = res.violations.last_mut() {
                                        if v.tag == "timeout-earlier-than-min-rto" && v.t == t {
                                            v.aux = Some(1);
                                        }
                                    }
                                }
                            }
                        }
                        // doubling: compare with the previous timeout gap of the same segment when
                        // nothing was acknowledged in between and the segment is not a probe
                        if !g.probe {
                            let rto_tx: Vec<T> = g.tx.iter().filter(|x| x.2).map(|x| x.0).collect();
                            if rto_tx.len() >= 2 {
                                let g1 = rto_tx[rto_tx.len() - 1] - rto_tx[rto_tx.len() - 2];
                                let g2 = t - rto_tx[rto_tx.len() - 1];
                                let no_ack_between = last_new_ack_t <= rto_tx[rto_tx.len() - 2];
                                if no_ack_between && g1 >= 200 * MS {
                                    let want = (2 * g1).min(60_000 * MS);
                                    // timers fire on the 1 ms wheel; RTO values are not whole ms;
                                    // a send refused by a full socket is repeated a millisecond
                                    // later (each refusal shifts one emission, and so two gaps)
                                    let refused = w.h.evs.iter().filter(|(ts, ev)| *ts + MS >= rto_tx[rto_tx.len() - 2] && *ts <= t && matches!(ev, crate::hist::Ev::SendFail { kind, .. } if *kind == "pending")).count() as u64;
                                    let tol = (3 + 3 * refused) * MS;
                                    if g2 + tol < want || g2 > want + tol {
                                        res.violate(P, "backoff-not-doubling", t, format!("seq {}: successive timeout gaps {} ms then {} ms (expected {} ms)", p.seq, g1 / MS, g2 / MS, want / MS));
                                    }
                                }
                            }
                        }
                    } else if retransmission && !in_rto_mode {
                        fast_rtx += 1;
                    } else if retransmission && in_rto_mode && rto_at_poll_end[i] > 0 && !backpressure {
                        // timeout recovery was in progress before this poll and still is after
                        // it: nothing but the timer retransmits (duplicate ACKs do not trigger)
                        res.violate(P, "retransmission-during-timeout-recovery", t, format!("seq {} re-emitted by something other than the retransmission timer while a timeout recovery is in progress ({} timeouts without an acknowledgement of new data)", p.seq, rto_at_poll_end[i]));
                    }
                    if is_rto || timer_start.is_none() {
                        timer_start = Some(t);
                    }
                    // (d) bounded number of transmissions per (sequence number, payload) identity
                    g.tx.push((t, len, is_rto));
                    let same_identity = g.tx.iter().filter(|x| x.1 == len).count();
                    if same_identity > max_retx + 1 {
                        res.violate(P, "too-many-retransmissions", t, format!("seq {} (len {}) transmitted {} times; limit is {} retransmissions", p.seq, len, same_identity, max_retx));
                    }
                    let _ = recovering;
                }
                codec::ST_FIN => {
                    own_fin_out.get_or_insert(p.seq);
                    let is_rto = rto_poll[i];
                    if is_rto || timer_start.is_none() {
                        timer_start = Some(t);
                    }
                    match fin.as_mut() {
                        None => fin = Some((p.seq, vec![(t, is_rto)], None)),
                        Some((_, v, acked)) => {
                            if let Some(ta) = acked {
                                if *ta < t && !hostile && !backpressure {
                                    res.violate(P, "fin-retransmitted-after-ack", t, format!("FIN seq {} re-emitted although acknowledged at {}", p.seq, crate::hist::fmt_t(*ta)));
                                }
                            }
                            v.push((t, is_rto));
                            if v.len() > max_retx + 2 && !hostile {
                                res.violate(P, "too-many-retransmissions", t, format!("FIN seq {} transmitted {} times; limit is {} retransmissions", p.seq, v.len(), max_retx));
                            }
                        }
                    }
                }
                _ => {}
            },
            _ => {}
        }
    }
    // (d) when the cap was hit the application sees an error
    if cap_hit && !app_error && !reader_dropped && out.t_end > task_over.unwrap_or(0) + 5 * crate::hist::SEC {
        // only if the application still had a call to make: a pending read is always there in
        // this family
        res.violate(P, "cap-hit-without-error", task_over.unwrap_or(0), "the connection gave up after the configured number of retransmissions but no application call failed".into());
    }
    // (a) liveness half: an un-acked first segment IS retransmitted: at the end of the run no
    // data segment stays un-acked on a living, non-window-stuck connection without any
    // retransmission for longer than 60 s + slack
    // (a connection facing a closed or too narrow window sends one segment per - backed-off -
    // timeout at best: F6/F15 territory, not a retransmission question)
    let window_stuck = last_rwnd.is_some_and(|w| (w as usize) < w_mss_floor);
    if task_over.is_none() && !hostile && !window_stuck {
        for (s, g) in &segs {
            if g.acked_at.is_none() {
                let last = g.tx.last().unwrap().0;
                if out.t_end > last + 125 * crate::hist::SEC {
                    res.violate(P, "unacked-segment-never-retransmitted", out.t_end, format!("seq {} last transmitted at {} is still un-acknowledged at the end of the run ({}) and the connection is alive", s, crate::hist::fmt_t(last), crate::hist::fmt_t(out.t_end)));
                    break;
                }
            }
        }
    }
    let _ = current_rto_min;
    let _ = rto_now;
    res.probe("timeout_retransmissions", timeouts);
    res.probe("fast_retransmissions", fast_rtx);
    res.probe("fast_retransmit_triggers", fast_triggers);
    res.probe("recovery_entries", recovery_entries);
    res.hit("retransmission_cap_hit", cap_hit);
    res.hit("probe_resegmented", segs.values().any(|g| g.probe && g.tx.iter().any(|x| x.1 != g.first_payload.len())));
    res.relevant = timeouts > 0 && fast_rtx > 0;
    res
}

/// Passive safety clauses on duplex runs (both endpoints real): (e) nothing acknowledged
/// strictly before is re-emitted (runs without back-pressure), (f) stable content per
/// sequence number except probe splits.
pub fn check_duplex(sc: &Scenario, out: &RunOutput) -> OracleResult {
    use crate::analysis::{endpoint_views, ConnTable, FlowEv};
    let mut res = OracleResult::default();
    let h = &out.hist;
    let ct = ConnTable::build(h);
    if ct.ambiguous {
        res.inconclusive = true;
        return res;
    }
    let backpressure = h.fault_counts.get("backpressure").copied().unwrap_or(0) > 0;
    let mut retx = 0u64;
    for v in endpoint_views(h, &ct) {
        let Some(n) = super::c14::node_of(sc, v.me) else { continue };
        let floor = crate::scen_gen::min_payload(sc.nodes[n].opts.link_mtu(), sc.nodes[n].ipv6);
        // seq -> (first payload, last len, acked at, probe)
        let mut segs: BTreeMap<u16, (Vec<u8>, usize, Option<T>, bool)> = BTreeMap::new();
        let mut max_acked = floor;
        let mut max_recv = 0usize;
        for (t, _, ev) in &v.evs {
            match ev {
                FlowEv::Deliver(d) => {
                    let Some(p) = &d.pkt else { continue };
                    // (a FIN that arrives out of sequence is dropped whole, acknowledgement
                    // included; this passive check does not model the receive side, so it takes
                    // no acknowledgement from FINs at all)
                    if d.corrupted || p.typ == codec::ST_SYN || p.typ == codec::ST_FIN {
                        continue;
                    }
                    if p.typ == codec::ST_DATA {
                        max_recv = max_recv.max(p.payload.len());
                    }
                    for (s, g) in segs.iter_mut() {
                        if g.2.is_none() && covers(p, *s) {
                            g.2 = Some(*t);
                            max_acked = max_acked.max(g.1);
                        }
                    }
                }
                FlowEv::Emit(e) => {
                    let Some(p) = &e.pkt else { continue };
                    if p.typ != codec::ST_DATA {
                        continue;
                    }
                    let len = p.payload.len();
                    match segs.get_mut(&p.seq) {
                        None => {
                            segs.insert(p.seq, (p.payload.clone(), len, None, len > floor));
                        }
                        Some(g) => {
                            retx += 1;
                            if let Some(ta) = g.2 {
                                if ta < *t && !backpressure {
                                    res.violate(P, "retransmitted-after-ack", *t, format!("node {}: seq {} (len {}) emitted at {} although it was acknowledged at {}", n, p.seq, len, crate::hist::fmt_t(*t), crate::hist::fmt_t(ta)));
                                }
                            }
                            let first_len = g.0.len();
                            if len == first_len {
                                if p.payload != g.0 {
                                    res.violate(P, "content-changed", *t, format!("node {}: seq {} re-emitted with the same length {} but different bytes", n, p.seq, len));
                                }
                            } else if len != g.1 {
                                let m = len.min(first_len);
                                let prefix_ok = p.payload[..m] == g.0[..m];
                                if !g.3 {
                                    res.violate(P, "non-probe-resegmented", *t, format!("node {}: seq {} first sent with {} bytes (not larger than the smallest segment size {}: cannot be a size probe) re-emitted with {} bytes", n, p.seq, first_len, floor, len));
                                } else if !prefix_ok {
                                    res.violate(P, "probe-recut-not-a-prefix", *t, format!("node {}: probe seq {} first sent with {} bytes re-emitted with {} bytes: the common prefix differs", n, p.seq, first_len, len));
                                }
                            }
                            g.1 = len;
                        }
                    }
                }
            }
        }
    }
    res.probe("duplex_retransmissions_checked", retx);
    res.relevant = retx > 0;
    res
}
