//! C16 — RTO estimator bounds, decided in situ over every sample / timeout of every
//! connection (H5 events).
use std::time::Duration;

use librqbit_utp::verif::{ProbeEvent, RtoCall};

use super::OracleResult;
use crate::{scenario::Scenario, world::RunOutput};

pub const P: &str = "C16";
const MIN: Duration = Duration::from_millis(200);
const MAX: Duration = Duration::from_secs(60);
const G: Duration = Duration::from_millis(10);

pub fn check(_sc: &Scenario, out: &RunOutput) -> OracleResult {
    let mut res = OracleResult::default();
    let mut minmax: std::collections::HashMap<_, (Duration, Duration)> = Default::default();
    let mut chain: std::collections::HashMap<_, u32> = Default::default();
    let mut max_chain = 0u32;
    let mut samples = 0u64;
    let mut timeouts = 0u64;
    let mut hit_cap = false;
    let mut zero_sample = false;
    let mut huge_sample = false;
    for (t, p) in out.hist.probes() {
        let ProbeEvent::Rto { key, call, rto_before, rto_after, srtt_after, rttvar_after } = p else { continue };
        if *rto_after < MIN || *rto_after > MAX {
            res.violate(P, "rto-out-of-bounds", t, format!("{:?}: after {:?} rto={:?}", key, call, rto_after));
        }
        match call {
            RtoCall::Sample(s) => {
                samples += 1;
                zero_sample |= s.is_zero();
                huge_sample |= *s > Duration::from_secs(60);
                chain.insert(*key, 0);
                let mm = minmax.entry(*key).or_insert((*s, *s));
                mm.0 = mm.0.min(*s);
                mm.1 = mm.1.max(*s);
                if *srtt_after < mm.0 || *srtt_after > mm.1 {
                    res.violate(P, "srtt-outside-samples", t, format!("{:?}: srtt {:?} not within samples [{:?}, {:?}]", key, srtt_after, mm.0, mm.1));
                }
                if let Some(var) = rttvar_after {
                    let want = (*srtt_after + (*var * 4).max(G)).clamp(MIN, MAX);
                    if want != *rto_after {
                        res.violate(P, "rto-formula", t, format!("{:?}: after sample {:?}: rto={:?}, srtt+max(4*rttvar,10ms) clamped = {:?} (srtt {:?}, rttvar {:?})", key, s, rto_after, want, srtt_after, var));
                    }
                } else {
                    res.violate(P, "rto-formula", t, format!("{:?}: estimator still in initial state after a sample", key));
                }
            }
            RtoCall::Timeout => {
                timeouts += 1;
                let c = chain.entry(*key).or_insert(0);
                *c += 1;
                max_chain = max_chain.max(*c);
                let want = (*rto_before * 2).clamp(MIN, MAX);
                if want != *rto_after {
                    res.violate(P, "rto-doubling", t, format!("{:?}: timeout: rto {:?} -> {:?}, expected {:?}", key, rto_before, rto_after, want));
                }
                if *rto_after == MAX {
                    hit_cap = true;
                }
            }
        }
    }
    res.probe("rto_samples", samples);
    res.probe("rto_timeouts", timeouts);
    res.hit("rto_backoff_chain_ge_3", max_chain >= 3);
    res.hit("rto_reached_60s_cap", hit_cap);
    res.hit("rtt_sample_zero", zero_sample);
    res.hit("rtt_sample_gt_60s", huge_sample);
    res.relevant = timeouts > 0 && samples > 0;
    res
}
