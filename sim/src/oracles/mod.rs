//! Property oracles: predicates over (Scenario, RunOutput).
use std::collections::BTreeMap;

use crate::{analysis::Violation, scenario::Scenario, world::RunOutput};

pub mod c01;
pub mod c02;
pub mod c03;
pub mod c04;
pub mod c05;
pub mod c06;
pub mod c07;
pub mod pw;
pub mod c08;
pub mod c09;
pub mod c10;
pub mod c11;
pub mod c12;
pub mod c13;
pub mod c14;
pub mod c15;
pub mod c16;
pub mod c17;
pub mod c18;
pub mod c19;

#[derive(Default, Debug)]
pub struct OracleResult {
    pub violations: Vec<Violation>,
    /// The property's relevance probe fired in this run (the run is non-trivial for it).
    pub relevant: bool,
    /// Rare-condition probes: name -> count in this run.
    pub probes: BTreeMap<&'static str, u64>,
    /// The run could not be judged (e.g. ambiguous connection table).
    pub inconclusive: bool,
}

impl OracleResult {
    pub fn probe(&mut self, name: &'static str, n: u64) {
        if n > 0 {
            *self.probes.entry(name).or_insert(0) += n;
        }
    }
    pub fn hit(&mut self, name: &'static str, cond: bool) {
        if cond {
            *self.probes.entry(name).or_insert(0) += 1;
        }
    }
    pub fn violate(&mut self, property: &'static str, tag: &'static str, t: u64, msg: String) {
        // Keep at most a few violations per run and tag.
        if self.violations.iter().filter(|v| v.tag == tag).count() < 3 {
            self.violations.push(Violation::new(property, tag, t, msg));
        }
    }
}

pub type OracleFn = fn(&Scenario, &RunOutput) -> OracleResult;
