//! C17 — handshake and teardown follow the uTP state machine on the wire. Trace rules over
//! the control packets of one scripted-peer connection (both roles).
use std::collections::BTreeMap;

use super::{
    pw::{PeerWorld, X},
    OracleResult,
};
use crate::{
    codec,
    hist::{AppKind, AppRes, Half, T},
    peer::PeerRole,
    scenario::Scenario,
    util::seq_diff,
    world::RunOutput,
};

pub const P: &str = "C17";

pub fn check(sc: &Scenario, out: &RunOutput) -> OracleResult {
    let mut res = OracleResult::default();
    let Some(w) = PeerWorld::new(sc, out) else {
        res.inconclusive = true;
        return res;
    };
    let evs = w.events();
    let max_retx = sc.nodes[0].opts.max_retx();
    let p_first = w.script.pkt_seq(0);

    // --- state tracked along the trace -------------------------------------------------
    let mut synack_count = 0usize;
    let mut first_initiator_packet: Option<T> = None; // valid packet from the initiator after the SYN
    let mut e_data: BTreeMap<u16, usize> = BTreeMap::new(); // E's data seq -> last len
    let mut e_max_data_seq: Option<u16> = None;
    let mut e_fin: Option<(T, u16)> = None; // first emission of E's FIN
    let mut e_fin_acked = false;
    let mut e_fin_emissions: Vec<T> = vec![];
    let mut accepted_bytes: u64 = 0;
    let mut first_tx_bytes: u64 = 0;
    let mut p_cum: u16 = p_first.wrapping_sub(1); // what E has received in order from P
    let mut p_delivered: std::collections::HashSet<u16> = Default::default();
    let mut p_fin_in_seq: Option<(T, usize, u16)> = None;
    let mut p_fin_out_of_seq: Vec<(T, u16)> = vec![];
    let mut reset_delivered: Option<(T, usize)> = None;
    let mut reader_eof: Option<T> = None;
    let mut any_err: Option<T> = None;
    let mut death_at: Option<(T, Option<String>)> = None;
    let mut app_closed = false; // shutdown called or writer dropped
    let mut states_seen: std::collections::BTreeSet<(String, u8)> = Default::default();
    let mut cur_state = String::from("none");
    let mut synack_phase = w.script.role == PeerRole::Connector;
    let mut hostile_ack = false;
    let mut hostile_ack_any = false;
    // next sequence number E has not used yet (for detecting acks of unsent data)
    let mut e_next_seq: Option<u16> = w.e_first_seq;
    let mut last_state_wnd_zero: Option<bool> = None;
    let mut fin_timer_flagged = false;
    let mut closed_before_reset = false;
    // first end-of-poll snapshot after the RESET arrived: (state, task finished)
    let mut state_after_reset: Option<(String, bool)> = None;

    for (t, idx, x) in &evs {
        let (t, idx) = (*t, *idx);
        match x {
            X::Snap(s) => {
                cur_state = s.state.to_string();
                if reset_delivered.is_some() && state_after_reset.is_none() {
                    state_after_reset = Some((s.state.to_string(), s.finished.is_some()));
                }
                // (b) while the endpoint's FIN is unacknowledged the retransmission timer runs; a
                // FIN that is due (application closed, nothing left to send or acknowledge) is out
                if s.finished.is_none() && s.state == "fin-wait-1" && !s.transport_pending && reset_delivered.is_none() && !hostile_ack {
                    if e_fin.is_some() && s.t_retransmit.is_none() && !fin_timer_flagged {
                        fin_timer_flagged = true;
                        res.violate(P, "fin-unacked-without-retransmission-timer", t, format!("the endpoint's FIN (seq {}) is out and unacknowledged (state fin-wait-1) but its retransmission timer is idle at the end of this poll: the FIN will never be retransmitted", e_fin.map(|(_, f)| f).unwrap_or(0)));
                    }
                    if e_fin.is_none() && s.tx_ring_len == 0 && s.segmented_packets == 0 && !fin_timer_flagged {
                        fin_timer_flagged = true;
                        res.violate(P, "fin-due-but-not-sent", t, "the application closed, every accepted byte was transmitted and acknowledged (state fin-wait-1, empty transmit buffer), but no FIN was sent in this poll".to_string());
                    }
                }
                if let Some(f) = &s.finished {
                    if death_at.is_none() {
                        death_at = Some((t, f.clone()));
                    }
                }
            }
            X::DelivE(p, d) => {
                if d.corrupted {
                    continue;
                }
                states_seen.insert((cur_state.clone(), p.typ));
                if reset_delivered.is_some() {
                    continue;
                }
                match p.typ {
                    codec::ST_RESET => {
                        if death_at.is_none() {
                            reset_delivered = Some((t, idx));
                            closed_before_reset = cur_state == "closed";
                        }
                    }
                    codec::ST_DATA | codec::ST_STATE | codec::ST_FIN => {
                        if synack_phase && w.e_first_seq.is_some_and(|f| seq_diff(p.ack, f.wrapping_sub(1)) >= 0) {
                            // first valid initiator packet
                            first_initiator_packet.get_or_insert(t);
                            synack_phase = false;
                        }
                        // acknowledgement of data never sent (hostile): rule (b) is not judged
                        if let Some(m) = e_next_seq {
                            // acknowledges a number the endpoint has not put on the wire yet
                            if seq_diff(p.ack, m) >= 0 && e_fin.is_none_or(|(_, f)| seq_diff(p.ack, f) > 0) {
                                hostile_ack_any = true;
                            }
                            if seq_diff(p.ack, m) >= 0 && e_fin.is_none_or(|(_, f)| seq_diff(p.ack, f) > 0) {
                                hostile_ack = true;
                            }
                            if let Some(bits) = p.sack_bits() {
                                for (i, b) in bits.iter().enumerate() {
                                    if *b && seq_diff(p.ack.wrapping_add(2).wrapping_add(i as u16), m) >= 0 {
                                        hostile_ack = true;
                                    }
                                }
                            }
                        }
                        if let Some((_, f)) = e_fin {
                            // (an out-of-sequence FIN is dropped whole, with its ack number)
                            let processed = p.typ != codec::ST_FIN || p.seq == p_cum.wrapping_add(1);
                            // (the state machine recognises exactly ack_nr == FIN)
                            if p.ack == f && processed {
                                e_fin_acked = true;
                            }
                        }
                        if p.typ == codec::ST_DATA && p_fin_in_seq.is_none() {
                            p_delivered.insert(p.seq);
                            while p_delivered.contains(&p_cum.wrapping_add(1)) {
                                p_cum = p_cum.wrapping_add(1);
                            }
                        }
                        if p.typ == codec::ST_FIN && !synack_phase {
                            if p.seq == p_cum.wrapping_add(1) {
                                if p_fin_in_seq.is_none() {
                                    p_fin_in_seq = Some((t, idx, p.seq));
                                }
                            } else if p_fin_in_seq.is_none() && seq_diff(p.seq, p_cum) > 1 {
                                p_fin_out_of_seq.push((t, p.seq));
                            }
                        }
                    }
                    _ => {}
                }
            }
            X::EmitE(p, _) => {
                // (d) after a delivered RESET nothing is emitted
                if let Some((tr, _)) = reset_delivered.filter(|(tr, _)| t > *tr) {
                    res.violate(P, "emitted-after-reset", t, format!("{} emitted after ST_RESET was delivered at {}", p.short(), crate::hist::fmt_t(tr)));
                }
                match p.typ {
                    codec::ST_STATE => {
                        let wnd_flip = last_state_wnd_zero.is_some_and(|z| z != (p.wnd == 0));
                        last_state_wnd_zero = Some(p.wnd == 0);
                        if synack_phase && w.script.role == PeerRole::Connector && !wnd_flip {
                            // (a) SYN-ACK (a zero/non-zero window change is a window update)
                            synack_count += 1;
                            if p.ack != w.script.isn {
                                res.violate(P, "synack-wrong-ack", t, format!("SYN-ACK {} does not acknowledge the SYN's sequence number {}", p.short(), w.script.isn));
                            }
                            if synack_count > max_retx {
                                res.violate(P, "synack-sent-too-often", t, format!("SYN-ACK sent {} times, configured retransmission limit {}", synack_count, max_retx));
                            }
                        }
                        // (c) an out-of-sequence FIN must not advance the ack number
                        for (_, fs) in &p_fin_out_of_seq {
                            if p_fin_in_seq.is_none() && seq_diff(p.ack, *fs) >= 0 && seq_diff(p_cum, *fs) < 0 {
                                res.violate(P, "out-of-sequence-fin-acked", t, format!("{} acknowledges FIN seq {} although only up to {} was received in order", p.short(), fs, p_cum));
                            }
                        }
                    }
                    codec::ST_DATA => {
                        let first = !e_data.contains_key(&p.seq);
                        if first {
                            first_tx_bytes += p.payload.len() as u64;
                            // (b) no new payload after the own FIN
                            if let Some((tf, f)) = e_fin {
                                if seq_diff(p.seq, f) >= 0 || true {
                                    res.violate(P, "new-payload-after-fin", t, format!("first transmission of {} after the endpoint's FIN (seq {}) left at {}", p.short(), f, crate::hist::fmt_t(tf)));
                                }
                            }
                        }
                        e_data.insert(p.seq, p.payload.len());
                        if e_next_seq.is_none_or(|n| seq_diff(p.seq, n) >= 0) {
                            e_next_seq = Some(p.seq.wrapping_add(1));
                        }
                        e_max_data_seq = Some(match e_max_data_seq {
                            Some(m) if seq_diff(m, p.seq) >= 0 => m,
                            _ => p.seq,
                        });
                    }
                    codec::ST_FIN => {
                        let is_death_fin = death_at.is_none() && false;
                        let _ = is_death_fin;
                        e_fin_emissions.push(t);
                        if e_fin.is_none() {
                            e_fin = Some((t, p.seq));
                            // Is this a graceful FIN (the task goes on) or the last word of a task
                            // that is dying with an error? Decided below from the task's end.
                        } else if let Some((_, f)) = e_fin {
                            if p.seq != f {
                                res.violate(P, "fin-number-changed", t, format!("FIN re-sent with seq {} (was {})", p.seq, f));
                            }
                            // (with a sender that ignores the window the endpoint may have dropped
                            // the acknowledging packet: judged only where everything is storable)
                            if e_fin_acked && sc.family != "peer_sender_hostile" {
                                res.violate(P, "fin-resent-after-ack", t, format!("FIN seq {} re-sent although it was acknowledged", f));
                            }
                        }
                    }
                    _ => {}
                }
            }
            X::App(a) if a.conn < 1000 => match (&a.kind, &a.res) {
                (AppKind::Write { .. }, AppRes::Ok(n)) => accepted_bytes += *n as u64,
                (AppKind::ShutdownStart, _) => app_closed = true,
                (AppKind::DropHalf, _) if a.half == Half::W => app_closed = true,
                (AppKind::Read { .. }, AppRes::Eof) => reader_eof = Some(t),
                (AppKind::Read { .. } | AppKind::Write { .. } | AppKind::Flush | AppKind::Shutdown, AppRes::Err(_)) => {
                    any_err.get_or_insert(t);
                }
                _ => {}
            },
            _ => {}
        }
    }

    // (a) without any initiator packet the connection fails with an error
    if w.script.role == PeerRole::Connector && first_initiator_packet.is_none() && synack_count > 0 {
        let failed = death_at.as_ref().is_some_and(|(_, e)| e.is_some());
        if !failed && out.t_end > 30 * crate::hist::SEC {
            res.violate(P, "synack-phase-never-fails", out.t_end, format!("{} SYN-ACKs sent, no initiator packet arrived, but the connection did not fail", synack_count));
        }
        res.hit("synack_retries_exhausted", failed);
    }

    // (b) the endpoint's own FIN (graceful close only: the task survived its first FIN emission)
    if let Some((tf, f)) = e_fin {
        let died_with_error_at_fin = death_at.as_ref().is_some_and(|(td, e)| *td == tf && e.is_some());
        if !died_with_error_at_fin {
            let expect = match e_max_data_seq {
                Some(m) => m.wrapping_add(1),
                None => w.e_first_seq.unwrap_or(f),
            };
            // data first sent after the FIN was already flagged; here the number itself
            let data_before_fin_max = e_data.keys().filter(|s| seq_diff(**s, f) < 0).max_by_key(|s| seq_diff(**s, f));
            let expect2 = data_before_fin_max.map(|m| m.wrapping_add(1)).unwrap_or(w.e_first_seq.unwrap_or(f));
            if f != expect && f != expect2 && !hostile_ack {
                res.violate(P, "fin-wrong-sequence-number", tf, format!("FIN seq {} but the last data segment is {:?} (expected {})", f, e_max_data_seq, expect2));
            }
            // only after every accepted byte was transmitted (when the application closed itself)
            if app_closed && !hostile_ack && p_fin_in_seq.is_none_or(|(tp, _, _)| tp > tf) {
                let written_before: u64 = w
                    .h
                    .apps()
                    .filter(|(ta, a)| *ta <= tf && a.conn < 1000 && matches!(a.kind, AppKind::Write { .. }))
                    .filter_map(|(_, a)| if let AppRes::Ok(n) = a.res { Some(n as u64) } else { None })
                    .sum();
                let sent_before: u64 = {
                    let mut seen = std::collections::HashSet::new();
                    let mut sum = 0u64;
                    for (te, _, x) in &evs {
                        if *te > tf {
                            break;
                        }
                        if let X::EmitE(p, _) = x {
                            if p.typ == codec::ST_DATA && seen.insert(p.seq) {
                                sum += p.payload.len() as u64;
                            }
                        }
                    }
                    sum
                };
                if sent_before < written_before && accepted_bytes >= written_before {
                    // re-segmentation (popped probe) can change lengths; compare with the last lengths too
                    let last_sum: u64 = e_data.iter().filter(|(s, _)| seq_diff(**s, f) < 0).map(|(_, l)| *l as u64).sum();
                    if last_sum < written_before {
                        res.violate(P, "fin-before-all-data-sent", tf, format!("FIN seq {} left at {} after {} payload bytes were transmitted, but {} bytes had been accepted by write", f, crate::hist::fmt_t(tf), sent_before, written_before));
                    }
                }
            }
            let _ = first_tx_bytes;
        }
    }

    // (c) a peer FIN in sequence is acknowledged at the same instant and answered with the own FIN
    if let Some((tp, pidx, fs)) = p_fin_in_seq {
        if reset_delivered.is_none_or(|(tr, _)| tr > tp) && death_at.as_ref().is_none_or(|(td, _)| *td >= tp) {
            let acked_same_instant = evs.iter().any(|(t, idx, x)| *t == tp && *idx > pidx && matches!(x, X::EmitE(p, _) if seq_diff(p.ack, fs) >= 0));
            let died_at_fin_instant = death_at.as_ref().is_some_and(|(td, _)| *td == tp);
            if !acked_same_instant && !died_at_fin_instant && sc.family != "peer_sender_hostile" {
                res.violate(P, "peer-fin-not-acked-at-once", tp, format!("peer FIN seq {} delivered in sequence at {} but no packet acknowledging it left at that instant", fs, crate::hist::fmt_t(tp)));
            }
            let answered = evs.iter().any(|(t, _, x)| *t >= tp && matches!(x, X::EmitE(p, _) if p.typ == codec::ST_FIN)) || e_fin.is_some();
            // (a connection that fails with an error before its outstanding data got through
            // never reaches the point of sending its FIN)
            let died_with_error = death_at.as_ref().is_some_and(|(_, e)| e.is_some());
            // (dont_wait_for_lastack: the endpoint is allowed to leave at once)
            if !answered && !died_with_error && !hostile_ack_any && !sc.nodes[0].opts.dont_wait_lastack && out.t_end > tp + 5 * crate::hist::SEC {
                res.violate(P, "peer-fin-not-answered", tp, format!("peer FIN seq {} delivered in sequence at {} but the endpoint never sent its own FIN", fs, crate::hist::fmt_t(tp)));
            }
        }
    }
    // out-of-sequence FIN gives no EOF
    // (judged where every delivered packet is storable, so that the model's notion of
    // "in sequence" is the endpoint's)
    if let (Some(te), None, true) = (reader_eof, p_fin_in_seq, sc.family != "peer_sender_hostile") {
        res.violate(P, "eof-without-in-sequence-fin", te, format!("reader got EOF at {} but no FIN was delivered in sequence (out-of-sequence FINs: {:?})", crate::hist::fmt_t(te), p_fin_out_of_seq));
    }

    // (d) RESET aborts at once with an error unless the close handshake had been answered
    if let Some((tr, _)) = reset_delivered {
        let ended = death_at.as_ref().map(|(td, _)| *td);
        let backpressure = w.h.fault_counts.get("backpressure").copied().unwrap_or(0) > 0;
        // The close handshake had completed before the RESET's turn (earlier, or in the very
        // batch that carried the RESET): the connection is closed, the RESET has nothing left
        // to abort; the task only lingers to hand received data over to the reader.
        let already_closed = closed_before_reset || state_after_reset.as_ref().is_some_and(|(st, fin)| st == "closed" && !*fin);
        if !backpressure && !already_closed {
            match ended {
                Some(td) if td == tr => {}
                Some(td) => res.violate(P, "reset-not-immediate", td, format!("ST_RESET delivered at {}, connection ended at {}", crate::hist::fmt_t(tr), crate::hist::fmt_t(td))),
                None => res.violate(P, "reset-not-immediate", out.t_end, format!("ST_RESET delivered at {}, connection never ended", crate::hist::fmt_t(tr))),
            }
        }
        let handshake_answered = p_fin_in_seq.is_some() && e_fin.is_some();
        let err = death_at.as_ref().is_some_and(|(_, e)| e.is_some());
        // (dont_wait_for_lastack: a peer FIN in sequence ends the connection at once; a RESET
        // that arrives behind it finds nothing left to abort)
        let ended_by_fin = sc.nodes[0].opts.dont_wait_lastack && p_fin_in_seq.is_some_and(|(tp, pidx, _)| reset_delivered.is_some_and(|(tr, ridx)| tp < tr || (tp == tr && pidx < ridx)));
        // (a peer that acknowledged a FIN the endpoint had not sent yet closed the handshake
        // in the endpoint's eyes before the RESET's turn)
        if !handshake_answered && !e_fin_acked && !err && ended.is_some() && !ended_by_fin && !hostile_ack_any {
            res.violate(P, "reset-without-error", tr, "ST_RESET ended the connection without an error although the close handshake had not been answered".into());
        }
    }

    res.probe("state_x_packet_pairs", states_seen.len() as u64);
    res.hit("peer_fin_in_sequence", p_fin_in_seq.is_some());
    res.hit("peer_fin_out_of_sequence", !p_fin_out_of_seq.is_empty());
    res.hit("reset_delivered", reset_delivered.is_some());
    res.hit("own_fin_sent", e_fin.is_some());
    res.hit("own_fin_retransmitted", e_fin_emissions.len() > 1);
    res.relevant = states_seen.len() >= 4;
    res
}
