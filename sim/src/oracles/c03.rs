//! C03 — honest completion: success means delivered, EOF is honest, failures surface in
//! bounded time.
use std::collections::HashMap;

use librqbit_utp::verif::ProbeEvent;

use super::OracleResult;
use crate::{
    analysis::{endpoint_views, stream_accounts, ConnTable, FlowEv},
    codec,
    hist::{AppKind, AppRes, Ev, Half, MS, T},
    scenario::{ROp, Scenario},
    util::seq_lt,
    world::RunOutput,
};

pub const P: &str = "C03";

/// Longest legitimate time for a connection with outstanding obligations to notice that its
/// peer is gone: inactivity timeout or the full retransmission back-off chain, plus slack.
pub fn death_bound_ms(sc: &Scenario, node: usize) -> u64 {
    let o = &sc.nodes[node].opts;
    o.inactivity_ms().max((o.max_retx() as u64 + 1) * 60_000) + 2_000
}

fn reader_keeps_reading(ops: &[ROp]) -> bool {
    !ops.iter().any(|o| matches!(o, ROp::Drop)) && matches!(ops.last(), Some(ROp::Read { n, .. }) if *n == u64::MAX)
}

pub fn check(sc: &Scenario, out: &RunOutput) -> OracleResult {
    let mut res = OracleResult::default();
    let h = &out.hist;
    let accts = stream_accounts(sc, h);
    let single = sc.connects.len() == 1 && sc.accepts.len() <= 1;

    // ---- (1) success means delivered ------------------------------------------------
    for ((k, wnode), a) in &accts {
        let c = &sc.connects[*k];
        // reader script of the peer
        let reader_ops: Option<&Vec<ROp>> = if c.node == *wnode {
            if single { sc.accepts.first().map(|a| &a.side.r) } else { None }
        } else {
            Some(&c.side.r)
        };
        let keeps = reader_ops.is_some_and(|r| reader_keeps_reading(r));
        // The reader task must also have existed (accept/connect completed).
        let reader_node = if c.node == *wnode { c.to } else { c.node };
        let reader_started = h.apps().any(|(_, e)| e.node == reader_node && e.conn == *k && e.half == Half::R);
        // (the guarantee is about the network dying, not about the reading side's application
        // tearing its own socket down: a cancelled or killed socket takes what it held with it)
        let reader_torn_down = h.evs.iter().any(|(_, ev)| matches!(ev, Ev::Fault(s) if s.trim() == format!("cancel socket token node {}", reader_node) || (s.starts_with("kill") && s.ends_with(&sc.addr(reader_node).to_string()))));
        if keeps && reader_started && !out.cap_hit && !reader_torn_down {
            let mut claims: Vec<(T, u64, &'static str)> = a.flush_ok.iter().map(|(t, w)| (*t, *w, "flush")).collect();
            if let Some((t, w)) = a.shutdown_ok {
                claims.push((t, w, "shutdown"));
            }
            for (t, w, what) in claims {
                if a.read < w {
                    let mut v_tag = "success-but-not-delivered";
                    // distinguish the case where reader ended with EOF short of the data
                    if a.eof.is_some() {
                        v_tag = "success-but-peer-saw-short-eof";
                    }
                    res.violate(
                        P,
                        v_tag,
                        t,
                        format!(
                            "conn {} node {}: {} returned Ok at {} with {} bytes written, but the peer application (which keeps reading) obtained only {} bytes by the end of the run (reader ended with {:?}{})",
                            k, wnode, what, crate::hist::fmt_t(t), w, a.read,
                            a.eof.map(|_| "EOF".to_string()).or(a.read_err.as_ref().map(|e| format!("error '{}'", e.1))).unwrap_or("still pending".into()),
                            ""
                        ),
                    );
                    res.violations.last_mut().map(|v| {
                        v.offset = Some(a.read);
                        v.aux = Some(w);
                        v.wnode = Some(*wnode);
                    });
                }
            }
        }
    }

    // ---- (2) EOF is honest ----------------------------------------------------------
    let ct = ConnTable::build(h);
    if !ct.ambiguous && single {
        for v in endpoint_views(h, &ct) {
            let Some(rnode) = super::c14::node_of(sc, v.me) else { continue };
            let Some(wnode) = super::c14::node_of(sc, v.peer) else { continue };
            let Some(a) = accts.get(&(0, wnode)) else { continue };
            let Some(t_eof) = a.eof else { continue };
            // FIN delivered to the reader's endpoint before EOF?
            let fin = v.evs.iter().find_map(|(t, _, ev)| match ev {
                FlowEv::Deliver(d) if *t <= t_eof && d.pkt.as_ref().is_some_and(|p| p.typ == codec::ST_FIN) => Some(d.pkt.clone().unwrap()),
                _ => None,
            });
            let Some(fin) = fin else {
                res.violate(P, "eof-without-fin", t_eof, format!("node {} read EOF at {} but no ST_FIN had been delivered to it", rnode, crate::hist::fmt_t(t_eof)));
                continue;
            };
            // Stream offset of the FIN in the writer's final segmentation: sum of the last
            // emitted payload length of every data sequence number below the FIN.
            let mut last_len: HashMap<u16, usize> = HashMap::new();
            for (_, e) in h.emits() {
                if e.src == v.peer && e.dst == v.me {
                    if let Some(p) = &e.pkt {
                        if p.typ == codec::ST_DATA && p.conn_id == fin.conn_id && seq_lt(p.seq, fin.seq) {
                            last_len.insert(p.seq, p.payload.len());
                        }
                    }
                }
            }
            let fin_off: u64 = last_len.values().map(|l| *l as u64).sum();
            if a.read != fin_off {
                res.violate(P, "eof-at-wrong-offset", t_eof, format!("node {} read EOF after {} bytes but {} bytes precede the peer's FIN (seq {}) on the wire", rnode, a.read, fin_off, fin.seq));
                res.violations.last_mut().map(|v| {
                    v.offset = Some(a.read);
                    v.aux = Some(fin_off);
                    v.wnode = Some(wnode);
                });
            }
            if let Some((ts, w)) = a.shutdown_ok {
                if a.read != w {
                    res.violate(P, "clean-eof-with-bytes-missing", t_eof, format!("node {} read a clean EOF after {} bytes while the writer's shutdown returned Ok (at {}) for {} bytes", rnode, a.read, crate::hist::fmt_t(ts), w));
                    res.violations.last_mut().map(|v| {
                        v.offset = Some(a.read);
                        v.aux = Some(w);
                        v.wnode = Some(wnode);
                    });
                }
            }
        }
    }

    // ---- (3) failures surface, bounded ----------------------------------------------
    // Abort instants per node (from fault markers and scenario).
    struct Abort {
        t: T,
        node: usize,
        immediate: bool,
        what: String,
    }
    let mut aborts: Vec<Abort> = vec![];
    for (t, ev) in &h.evs {
        if let Ev::Fault(s) = ev {
            if s.starts_with("cut Both") || s.starts_with("cut From") || s.starts_with("kill") {
                // every real node whose peer is unreachable from now on
                for n in 0..sc.nodes.len() {
                    if s.starts_with("kill") && s.ends_with(&sc.addr(n).to_string()) {
                        continue; // the killed node itself: its tasks are cancelled
                    }
                    aborts.push(Abort { t: *t, node: n, immediate: false, what: s.clone() });
                }
            } else if let Some(rest) = s.strip_prefix("inject RESET to node ") {
                if let Ok(n) = rest.trim().parse::<usize>() {
                    aborts.push(Abort { t: *t, node: n, immediate: true, what: s.clone() });
                }
            } else if let Some(rest) = s.strip_prefix("cancel socket token node ") {
                if let Ok(n) = rest.trim().parse::<usize>() {
                    aborts.push(Abort { t: *t, node: n, immediate: true, what: s.clone() });
                }
            }
        }
    }
    for c in &sc.net.cuts {
        if c.to_ms.is_none() {
            for n in 0..sc.nodes.len() {
                aborts.push(Abort { t: c.from_ms * MS, node: n, immediate: false, what: format!("scheduled cut {:?}", c) });
            }
        }
    }
    let mut landed_with_outstanding = 0u64;
    for ab in &aborts {
        // RESET: the instant that matters is its delivery. Work with event indices so that
        // "before" is exact even within one virtual instant.
        let addr = sc.addr(ab.node);
        let idx_abort = if ab.what.starts_with("inject RESET") {
            match h.evs.iter().position(|(t, ev)| *t >= ab.t && matches!(ev, Ev::Deliver(d) if d.dst == addr && d.pkt.as_ref().is_some_and(|p| p.typ == codec::ST_RESET))) {
                Some(i) => i,
                None => continue,
            }
        } else {
            h.evs.iter().position(|(t, _)| *t >= ab.t).unwrap_or(h.evs.len())
        };
        let t_abort = h.evs.get(idx_abort).map(|e| e.0).unwrap_or(ab.t).max(ab.t);
        // Obligation: data or FIN outstanding at the abort instant (last snapshot), or writes after it.
        let mut last_snap: Option<&librqbit_utp::verif::ConnSnapshot> = None;
        for (_, ev) in h.evs.iter().take(idx_abort) {
            if let Ev::Probe(ProbeEvent::ConnPoll(s)) = ev {
                if s.key.local == addr {
                    last_snap = Some(s);
                }
            }
        }
        let outstanding = last_snap.is_some_and(|s| s.finished.is_none() && (s.tx_ring_len > 0 || s.state == "fin-wait-1" || s.state == "last-ack"));
        // What was still in flight at the abort instant may have settled the obligation: an
        // endpoint whose task is alive, established and has nothing buffered at the end of
        // the run is purely idle (no obligation, as in TCP without keep-alive).
        let final_snap = h.probes().filter_map(|(_, p)| match p {
            ProbeEvent::ConnPoll(s) if s.key.local == addr => Some(s),
            _ => None,
        }).last();
        let idle_final = final_snap.is_some_and(|s| s.finished.is_none() && s.tx_ring_len == 0 && s.state == "established" && !s.writer_shutdown);
        let outstanding = outstanding && !idle_final;
        let writes_after = h.apps().any(|(t, a)| t > t_abort && a.node == ab.node && matches!(a.kind, AppKind::Write { .. }) && matches!(a.res, AppRes::Ok(_)));
        if !(outstanding || writes_after) {
            continue;
        }
        if last_snap.is_none() {
            continue;
        }
        landed_with_outstanding += 1;
        // "At the same instant" presumes the endpoint can run: with send back-pressure the
        // connection task legitimately waits for the transport before it looks at its inbox.
        let backpressure = h.fault_counts.get("backpressure").copied().unwrap_or(0) > 0;
        let bound = if ab.immediate && !backpressure { 0 } else if ab.immediate { 1000 * MS } else { death_bound_ms(sc, ab.node) * MS };
        let deadline = t_abort + bound;
        if deadline > out.t_end {
            continue; // run too short to judge
        }
        // Every op that was pending at the abort or started later must complete by the deadline.
        // Track starts/completions per (half, kind-class).
        let mut pending: HashMap<(Half, u8), T> = HashMap::new();
        for (t, a) in h.apps() {
            if a.node != ab.node || a.conn >= 1000 {
                continue;
            }
            let class = match &a.kind {
                AppKind::ReadStart { .. } | AppKind::Read { .. } => 0,
                AppKind::WriteBlocked { .. } | AppKind::Write { .. } => 1,
                AppKind::FlushStart | AppKind::Flush => 2,
                AppKind::ShutdownStart | AppKind::Shutdown => 3,
                _ => continue,
            };
            let is_start = matches!(a.kind, AppKind::ReadStart { .. } | AppKind::WriteBlocked { .. } | AppKind::FlushStart | AppKind::ShutdownStart);
            if is_start {
                pending.insert((a.half, class), t);
            } else {
                let started = pending.remove(&(a.half, class));
                // completed: check lateness
                // late = later than the bound AND later than its own start (a call made after
                // the bound must fail at once)
                if started.is_some_and(|ts| t > deadline.max(ts)) {
                    res.violate(P, "failure-surfaced-late", t, format!("node {}: {:?} completed at {} — later than the bound {} after abort cause '{}' at {}", ab.node, a.kind, crate::hist::fmt_t(t), crate::hist::fmt_t(deadline), ab.what, crate::hist::fmt_t(t_abort)));
                }
                // After an abort with obligations, an EOF needs a delivered FIN (checked in (2));
                // flush/shutdown Ok are judged by (1).
            }
        }
        for ((half, class), t0) in pending {
            // Reads on an endpoint that only has read obligations are exempt only if the
            // endpoint had nothing outstanding — here it had, so everything must resolve.
            let name = ["read", "write", "flush", "shutdown"][class as usize];
            res.violate(
                P,
                "call-hangs-after-abort",
                out.t_end,
                format!("node {}: {} ({:?} half) pending since {} is still unresolved at the end of the run ({}), bound was {} after abort cause '{}' at {}", ab.node, name, half, crate::hist::fmt_t(t0), crate::hist::fmt_t(out.t_end), crate::hist::fmt_t(deadline), ab.what, crate::hist::fmt_t(t_abort)),
            );
            res.violations.last_mut().map(|v| v.node = Some(ab.node));
        }
    }

    // probes
    res.probe("abort_landed_with_data_or_fin_outstanding", landed_with_outstanding);
    res.hit("flush_or_shutdown_ok_claims", accts.values().any(|a| !a.flush_ok.is_empty() || a.shutdown_ok.is_some()));
    res.hit("eof_observed", accts.values().any(|a| a.eof.is_some()));
    res.hit("read_error_observed", accts.values().any(|a| a.read_err.is_some()));
    res.hit("shutdown_error_observed", accts.values().any(|a| a.shutdown_err.is_some() || a.flush_err.is_some()));
    let fin_dropped = h.emits().any(|(_, e)| e.pkt.as_ref().is_some_and(|p| p.typ == codec::ST_FIN) && matches!(e.fate, crate::hist::Fate::Dropped(_)));
    res.hit("fin_lost", fin_dropped);
    res.relevant = landed_with_outstanding > 0 || fin_dropped;
    res
}
