//! C12 — concurrent connections on one socket are isolated and bounded. Many simultaneous
//! connections between 2-4 real sockets, both directions, distinct keyed payload per stream.
use std::collections::{BTreeMap, HashMap};

use librqbit_utp::verif::ProbeEvent;

use super::OracleResult;
use crate::{
    analysis::stream_accounts,
    hist::{AppKind, AppRes, Ev, T},
    scenario::Scenario,
    world::RunOutput,
};

pub const P: &str = "C12";

pub fn check(sc: &Scenario, out: &RunOutput) -> OracleResult {
    let mut res = OracleResult::default();
    let h = &out.hist;
    let fault_free = sc.param("fault_free") == Some(1);

    // (1) every stream intact: the per-connection C01 oracle (each stream has its own PRF key,
    // so bytes of another connection cannot pass for this one's)
    let c01 = super::c01::check(sc, out);
    for mut v in c01.violations {
        v.property = P;
        v.tag = match v.tag {
            "content-mismatch" => "stream-carries-foreign-or-wrong-bytes",
            "read-more-than-written" => "stream-read-more-than-written",
            t => t,
        };
        res.violations.push(v);
    }

    // (2) pairing: an accepted stream whose token is connect k's sits on the socket connect k
    // addressed, and no connect is handed to two accepts
    let mut paired: HashMap<usize, (usize, T)> = HashMap::new(); // k -> (accept j, t)
    let mut connect_ok: HashMap<usize, T> = HashMap::new();
    let mut connect_err: HashMap<usize, (T, String)> = HashMap::new();
    for (t, a) in h.apps() {
        match (&a.kind, &a.res) {
            (AppKind::Note(n), AppRes::Ok(k)) if n.starts_with("accept ") && n.contains(" paired with connect ") => {
                let j = a.conn - 1000;
                let k = *k;
                if a.node != sc.connects[k].to {
                    res.violate(P, "stream-surfaced-on-wrong-socket", t, format!("accept {} on node {} received the stream of connect {} which was addressed to node {}", j, a.node, k, sc.connects[k].to));
                }
                if let Some((j0, t0)) = paired.get(&k) {
                    res.violate(P, "connect-surfaced-twice", t, format!("connect {} was handed to accept {} at {} and again to accept {} at {}", k, j0, crate::hist::fmt_t(*t0), j, crate::hist::fmt_t(t)));
                } else {
                    paired.insert(k, (j, t));
                }
            }
            (AppKind::Note(n), AppRes::Err(e)) if n.contains("unidentified") && e.contains("matches no connector") => {
                res.violate(P, "accepted-stream-with-foreign-token", t, format!("node {}: {} ({})", a.node, n, e));
            }
            (AppKind::ConnectDone, AppRes::Ok(_)) => {
                connect_ok.insert(a.conn, t);
            }
            (AppKind::ConnectDone, AppRes::Err(e)) => {
                connect_err.insert(a.conn, (t, e.clone()));
            }
            _ => {}
        }
    }

    // (3) connection ids in use between one address pair are unique: receive keys (local,
    // remote, recv id) and send keys of simultaneously live connections never coincide;
    // (4) the number of live connections of a socket never exceeds its limit
    {
        let mut live_recv: HashMap<(std::net::SocketAddr, std::net::SocketAddr, u16), u32> = HashMap::new();
        let mut recv_of: HashMap<(std::net::SocketAddr, std::net::SocketAddr, u16), Vec<u16>> = HashMap::new();
        let mut live_send: HashMap<(std::net::SocketAddr, std::net::SocketAddr, u16), u32> = HashMap::new();
        let mut live_count: HashMap<std::net::SocketAddr, usize> = HashMap::new();
        let mut max_live_seen = 0usize;
        for (t, ev) in &h.evs {
            match ev {
                Ev::Probe(ProbeEvent::ConnCreated(k)) => {
                    let c = live_send.entry((k.local, k.remote, k.conn_id_send)).or_insert(0);
                    *c += 1;
                    // (two connections in opposite directions legitimately share a SEND id:
                    // connector c+1 and acceptor of a SYN with id c+1; only receive keys demultiplex)
                    let n = live_count.entry(k.local).or_insert(0);
                    *n += 1;
                    max_live_seen = max_live_seen.max(*n);
                    if let Some(node) = (0..sc.nodes.len()).find(|i| sc.addr(*i) == k.local) {
                        let limit = sc.nodes[node].opts.max_live();
                        if *n > limit {
                            res.violate(P, "live-connections-exceed-limit", *t, format!("node {}: {} connection tasks alive, configured limit {}", node, n, limit));
                        }
                    }
                }
                Ev::Probe(ProbeEvent::ConnRecvId { key, conn_id_recv }) => {
                    let c = live_recv.entry((key.local, key.remote, *conn_id_recv)).or_insert(0);
                    *c += 1;
                    recv_of.entry((key.local, key.remote, key.conn_id_send)).or_default().push(*conn_id_recv);
                    if *c > 1 {
                        res.violate(P, "receive-connection-id-shared-by-live-connections", *t, format!("{}: {} live connections with peer {} receive on connection id {}", key.local, c, key.remote, conn_id_recv));
                    }
                }
                Ev::Probe(ProbeEvent::ConnDropped(k)) => {
                    if let Some(c) = live_send.get_mut(&(k.local, k.remote, k.conn_id_send)) {
                        *c = c.saturating_sub(1);
                    }
                    if let Some(v) = recv_of.get_mut(&(k.local, k.remote, k.conn_id_send)) {
                        if !v.is_empty() {
                            let rid = v.remove(0);
                            if let Some(c) = live_recv.get_mut(&(k.local, k.remote, rid)) {
                                *c = c.saturating_sub(1);
                            }
                        }
                    }
                    if let Some(n) = live_count.get_mut(&k.local) {
                        *n = n.saturating_sub(1);
                    }
                }
                Ev::Probe(ProbeEvent::Socket(s)) => {
                    if s.streams > s.max_streams {
                        res.violate(P, "stream-table-exceeds-limit", *t, format!("{}: stream table holds {} entries, limit {}", s.local, s.streams, s.max_streams));
                    }
                }
                _ => {}
            }
        }
        res.probe("max_live_connections_on_one_socket", max_live_seen as u64);
    }

    // (3') loss-free runs: a SYN names a NEW connection; every SYN that reaches a socket is
    // accepted, refused with a RESET, still queued at the end, or ignored because the receive
    // key it asks for (sender, id + 1) is in use - it never disappears into another connection
    if fault_free {
        use std::collections::HashSet;
        type K3 = (std::net::SocketAddr, std::net::SocketAddr, u16);
        let mut live_recv: HashMap<K3, u32> = HashMap::new();
        let mut recv_of: HashMap<K3, Vec<u16>> = HashMap::new();
        let mut pending_connect: HashSet<K3> = HashSet::new(); // (connector, target, syn id)
        // every receive key a socket ever used or asked for (a queued SYN is also dropped when
        // the key it asks for is taken by a connection opened while it waited)
        let mut ever_key: HashSet<K3> = HashSet::new();
        let mut syns: Vec<(T, std::net::SocketAddr, std::net::SocketAddr, u16, u16, bool)> = vec![]; // t, src, dst, id, seq, key busy
        let mut seen: HashSet<K3> = HashSet::new();
        let mut accepted: HashSet<K3> = HashSet::new(); // (acceptor, remote, syn id)
        let mut refused: HashSet<K3> = HashSet::new();
        let mut last_cached: HashMap<std::net::SocketAddr, usize> = HashMap::new();
        for (t, ev) in &h.evs {
            match ev {
                Ev::Emit(e) if e.real => {
                    if let Some(p) = &e.pkt {
                        if p.typ == crate::codec::ST_SYN {
                            pending_connect.insert((e.src, e.dst, p.conn_id));
                            ever_key.insert((e.src, e.dst, p.conn_id));
                        }
                        if p.typ == crate::codec::ST_RESET {
                            refused.insert((e.src, e.dst, p.conn_id));
                        }
                    }
                }
                Ev::Deliver(d) if !d.corrupted => {
                    if let Some(p) = &d.pkt {
                        if p.typ == crate::codec::ST_SYN && seen.insert((d.src, d.dst, p.conn_id)) {
                            let want = p.conn_id.wrapping_add(1);
                            let busy = live_recv.get(&(d.dst, d.src, want)).copied().unwrap_or(0) > 0 || pending_connect.contains(&(d.dst, d.src, want));
                            syns.push((*t, d.src, d.dst, p.conn_id, p.seq, busy));
                        }
                    }
                }
                Ev::Probe(ProbeEvent::ConnCreated(k)) => {
                    accepted.insert((k.local, k.remote, k.conn_id_send));
                }
                Ev::Probe(ProbeEvent::ConnRecvId { key, conn_id_recv }) => {
                    *live_recv.entry((key.local, key.remote, *conn_id_recv)).or_insert(0) += 1;
                    recv_of.entry((key.local, key.remote, key.conn_id_send)).or_default().push(*conn_id_recv);
                    pending_connect.remove(&(key.local, key.remote, *conn_id_recv));
                    if !accepted.contains(&(key.local, key.remote, key.conn_id_send)) || conn_id_recv.wrapping_add(1) == key.conn_id_send {
                        // (a connector-role connection: receives on its SYN id)
                        ever_key.insert((key.local, key.remote, *conn_id_recv));
                    }
                }
                Ev::Probe(ProbeEvent::ConnDropped(k)) => {
                    if let Some(v) = recv_of.get_mut(&(k.local, k.remote, k.conn_id_send)) {
                        if !v.is_empty() {
                            let rid = v.remove(0);
                            if let Some(c) = live_recv.get_mut(&(k.local, k.remote, rid)) {
                                *c = c.saturating_sub(1);
                            }
                        }
                    }
                }
                Ev::Probe(ProbeEvent::Socket(s)) => {
                    last_cached.insert(s.local, s.cached_syns);
                }
                _ => {}
            }
        }
        for n in 0..sc.nodes.len() {
            let me = sc.addr(n);
            let lost: Vec<_> = syns
                .iter()
                .filter(|(_, src, dst, id, _, busy)| *dst == me && !*busy && !accepted.contains(&(me, *src, *id)) && !refused.contains(&(me, *src, *id)))
                // the key it asks for was never one of our own connects' (before or after)
                .filter(|(_, src, _, id, _, _)| !ever_key.contains(&(me, *src, id.wrapping_add(1))))
                .collect();
            let queued = last_cached.get(&me).copied().unwrap_or(0);
            if lost.len() > queued {
                let (t, src, _, id, _, _) = lost[0];
                res.violate(P, "connection-request-vanished", *t, format!("loss-free run: {} SYNs reached node {} asking for a free receive key and were neither accepted nor refused, but only {} are queued at the end of the run (first: from {} connection id {} at {})", lost.len(), n, queued, src, id, crate::hist::fmt_t(*t)));
            }
        }
    }

    // (5) loss-free runs: a connection that was established (connect Ok and surfaced at an
    // accept) is not disturbed by the others, by attempts beyond the limit or by id reuse: both
    // streams arrive complete, both readers see EOF, no call on it fails
    let accts = stream_accounts(sc, h);
    let mut established = 0u64;
    let mut completed = 0u64;
    let b_acc = sc.param("acceptor_bytes").unwrap_or(0) as u64;
    let mut errs: BTreeMap<(usize, usize), (T, String)> = BTreeMap::new();
    for (t, a) in h.apps() {
        if a.conn < 1000 {
            if let (AppKind::Read { .. } | AppKind::Write { .. } | AppKind::Flush | AppKind::Shutdown, AppRes::Err(e)) = (&a.kind, &a.res) {
                errs.entry((a.conn, a.node)).or_insert((t, e.clone()));
            }
        }
    }
    for (k, c) in sc.connects.iter().enumerate() {
        if !connect_ok.contains_key(&k) || !paired.contains_key(&k) {
            continue;
        }
        established += 1;
        // (a run usually hits its script cap because some surplus accept or unanswered connect
        // waits forever; an established connection has had more than a minute by then)
        if !fault_free {
            continue;
        }
        let n_conn = match c.side.w.first() {
            Some(crate::scenario::WOp::Write { n, .. }) => *n,
            _ => 0,
        };
        let a_fwd = accts.get(&(k, c.node)).cloned().unwrap_or_default(); // written by connector
        let a_rev = accts.get(&(k, c.to)).cloned().unwrap_or_default(); // written by acceptor
        // the acceptor's reader starts after the 8 token bytes
        let fwd_ok = a_fwd.written == n_conn && a_fwd.read + 8 == n_conn && a_fwd.eof.is_some();
        let rev_ok = a_rev.written == b_acc && a_rev.read == b_acc;
        let err = errs.get(&(k, c.node)).or_else(|| errs.get(&(k, c.to)));
        if fwd_ok && rev_ok && err.is_none() {
            completed += 1;
        } else {
            res.violate(
                P,
                "established-connection-disturbed",
                err.map(|e| e.0).unwrap_or(out.t_end),
                format!(
                    "loss-free run: connect {} (node {} -> node {}) was established and surfaced at an accept, but: connector stream written {} / read {}+8 of {} eof={:?}; acceptor stream written {} / read {} of {}; first failing call: {:?}",
                    k, c.node, c.to, a_fwd.written, a_fwd.read, n_conn, a_fwd.eof.map(crate::hist::fmt_t), a_rev.written, a_rev.read, b_acc, err
                ),
            );
        }
    }
    let too_many = connect_err.values().filter(|(_, e)| e.contains("too many active")).count();
    res.probe("connections_established", established);
    res.probe("connections_completed_in_loss_free_runs", completed);
    res.probe("connects_refused_at_the_limit", too_many as u64);
    res.relevant = established >= 2;
    res
}
