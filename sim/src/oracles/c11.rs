//! C11 — wire format. (i) every datagram a real socket emits is accepted by the independent
//! reference parser and carries the connection id owed to its direction; (ii) the library's
//! public header codec round-trips every emitted header byte-for-byte; (iii) differential
//! accept/reject on the receive path: the socket's own verdict on every delivered datagram
//! (valid traffic and corrupted copies) equals the reference parser's verdict.
use librqbit_utp::{raw::UtpHeader, verif::ProbeEvent};

use super::OracleResult;
use crate::{
    analysis::ConnTable,
    codec::{self, Pkt},
    hist::Ev,
    scenario::Scenario,
    world::RunOutput,
};

pub const P: &str = "C11";

pub fn check(_sc: &Scenario, out: &RunOutput) -> OracleResult {
    let mut res = OracleResult::default();
    let h = &out.hist;
    let ct = ConnTable::build(h);
    let mut emitted = 0u64;
    let mut with_ext = 0u64;
    let mut verdict_accept = 0u64;
    let mut verdict_reject = 0u64;
    let mut corrupted_accept = 0u64;
    let mut corrupted_reject = 0u64;
    let mut unknown_ext_delivered = 0u64;
    let mut last_deliver: std::collections::HashMap<std::net::SocketAddr, (usize, bool)> = Default::default();
    for (idx, (t, ev)) in h.evs.iter().enumerate() {
        match ev {
            Ev::Emit(e) if e.real => {
                emitted += 1;
                // (i) reference parser
                let p = match Pkt::parse(&e.raw) {
                    Ok(p) => p,
                    Err(err) => {
                        res.violate(P, "emitted-malformed", *t, format!("datagram #{} emitted by {} rejected by the reference parser: {:?} ({} bytes)", e.ord, e.src, err, e.raw.len()));
                        continue;
                    }
                };
                if !p.exts.is_empty() {
                    with_ext += 1;
                }
                // connection id owed to the direction
                if !ct.ambiguous {
                    match ct.classify(e.src, e.dst, &p) {
                        Some(_) => {}
                        None => {
                            // A RESET answering an unacceptable SYN carries the SYN's id; it is in the
                            // table as "from acceptor with id c". Anything else is a wrong id.
                            res.violate(P, "emitted-wrong-connection-id", *t, format!("datagram #{} {} from {} to {} names connection id {} which no SYN between the two established for that direction", e.ord, p.short(), e.src, e.dst, p.conn_id));
                        }
                    }
                }
                // (ii) library codec round trip
                match UtpHeader::deserialize(&e.raw) {
                    None => res.violate(P, "own-parser-rejects-own-output", *t, format!("UtpHeader::deserialize rejects emitted datagram #{} {}", e.ord, p.short())),
                    Some((hdr, hlen)) => {
                        let mut buf = vec![0u8; e.raw.len().max(64) + 64];
                        match hdr.serialize(&mut buf) {
                            Ok(n) => {
                                if n != hlen || buf[..n] != e.raw[..hlen.min(e.raw.len())] {
                                    res.violate(P, "roundtrip-differs", *t, format!("header of datagram #{} {} does not round-trip: parsed len {}, re-serialised len {}", e.ord, p.short(), hlen, n));
                                }
                                if hlen != p.header_len() {
                                    res.violate(P, "header-length-disagrees", *t, format!("datagram #{}: library header length {} vs reference {}", e.ord, hlen, p.header_len()));
                                }
                            }
                            Err(err) => res.violate(P, "roundtrip-differs", *t, format!("re-serialising header of datagram #{} failed: {err:#}", e.ord)),
                        }
                    }
                }
            }
            Ev::Deliver(d) if d.to_real => {
                last_deliver.insert(d.dst, (idx, d.corrupted));
                if d.corrupted {
                    if let Ok(p) = Pkt::parse_structure(&d.raw) {
                        if p.exts.iter().any(|(id, _)| *id != codec::EXT_SACK && *id != 3) {
                            unknown_ext_delivered += 1;
                        }
                    }
                }
            }
            Ev::Probe(ProbeEvent::Parsed { local, from, len, accepted }) => {
                // (iii) match with the delivery that precedes it at the same endpoint
                let Some((di, corrupted)) = last_deliver.remove(local) else {
                    res.violate(P, "verdict-without-delivery", *t, format!("socket {} reports a parse verdict without a preceding delivery", local));
                    continue;
                };
                let Ev::Deliver(d) = &h.evs[di].1 else { continue };
                if d.src != *from || d.raw.len() != *len {
                    res.violate(P, "verdict-without-delivery", *t, format!("socket {} verdict (from {}, {} bytes) does not match last delivery (from {}, {} bytes)", local, from, len, d.src, d.raw.len()));
                    continue;
                }
                let reference = Pkt::parse(&d.raw);
                if reference.is_ok() != *accepted {
                    res.violate(
                        P,
                        "accept-reject-differs",
                        *t,
                        format!("socket {} {} a {}-byte datagram (first bytes {:02x?}) which the reference parser {} ({:?})", local, if *accepted { "accepted" } else { "rejected" }, len, &d.raw[..d.raw.len().min(24)], if reference.is_ok() { "accepts" } else { "rejects" }, reference.as_ref().err()),
                    );
                }
                match (*accepted, corrupted) {
                    (true, false) => verdict_accept += 1,
                    (false, false) => verdict_reject += 1,
                    (true, true) => corrupted_accept += 1,
                    (false, true) => corrupted_reject += 1,
                }
            }
            _ => {}
        }
    }
    res.probe("emitted_datagrams_checked", emitted);
    res.probe("emitted_with_extension", with_ext);
    res.probe("verdicts_accept_uncorrupted", verdict_accept);
    res.probe("verdicts_reject_uncorrupted", verdict_reject);
    res.probe("verdicts_accept_corrupted", corrupted_accept);
    res.probe("verdicts_reject_corrupted", corrupted_reject);
    res.probe("unknown_extension_delivered", unknown_ext_delivered);
    res.relevant = corrupted_accept + corrupted_reject > 0 && emitted > 0;
    res
}
