//! C19 — send-side buffering is bounded; write applies back-pressure and is woken as soon as
//! acknowledgements free space; growing the ring keeps its bytes intact.
use std::collections::BTreeMap;

use super::{
    pw::{covers, PeerWorld, X},
    OracleResult,
};
use crate::{
    codec,
    hist::{AppKind, AppRes, Half, T},
    scenario::Scenario,
    util::{prf_mismatch, seq_diff},
    world::RunOutput,
};

pub const P: &str = "C19";

pub fn check(sc: &Scenario, out: &RunOutput) -> OracleResult {
    let mut res = OracleResult::default();
    let Some(w) = PeerWorld::new(sc, out) else {
        res.inconclusive = true;
        return res;
    };
    let o = &sc.nodes[0].opts;
    let limit = o.tx_init().max(o.tx_max()) as i64;
    let key = match w.script.role {
        crate::peer::PeerRole::Connector => sc.stream_key(0, 1), // endpoint is the acceptor
        crate::peer::PeerRole::Acceptor => sc.stream_key(0, 0),
    };
    let evs = w.events_effective();
    let mut accepted: i64 = 0;
    let mut acked: i64 = 0;
    let mut sent: BTreeMap<u16, (usize, bool)> = BTreeMap::new();
    let mut unacked: std::collections::VecDeque<u16> = Default::default();
    // stream offset at which each sequence number starts
    let mut start_off: BTreeMap<u16, u64> = BTreeMap::new();
    let mut blocked_since: Option<(T, u64)> = None;
    let mut freeing_ack_at: Option<T> = None; // an ACK that freed space was delivered at this instant
    let mut wake_obligation: Option<T> = None;
    let mut ring_cap: usize = 0;
    let mut grew = false;
    let mut grew_wrapped = false;
    let mut blocked_writes = 0u64;
    let mut hostile = false;
    let mut next_unsent: Option<u16> = w.e_first_seq;
    let mut t_now: T = 0;
    let mut conn_over = false;

    for (t, _, x) in &evs {
        let t = *t;
        if t != t_now {
            if let Some(tw) = wake_obligation {
                if t > tw && !conn_over && !hostile {
                    res.violate(P, "blocked-write-not-woken", tw, format!("an acknowledgement that frees buffer space was delivered at {} while write was blocked (since {:?}); write did not complete at that instant", crate::hist::fmt_t(tw), blocked_since.map(|b| crate::hist::fmt_t(b.0))));
                }
                wake_obligation = None;
            }
            freeing_ack_at = None;
            t_now = t;
        }
        match x {
            X::App(a) if a.half == Half::W && a.conn < 1000 => match (&a.kind, &a.res) {
                (AppKind::Write { .. }, AppRes::Ok(n)) => {
                    accepted += *n as i64;
                    blocked_since = None;
                    wake_obligation = None;
                    if accepted - acked > limit && !hostile {
                        res.violate(P, "buffer-limit-exceeded", t, format!("{} bytes accepted by write, {} acknowledged: {} buffered, limit max(initial {}, maximum {}) = {}", accepted, acked, accepted - acked, o.tx_init(), o.tx_max(), limit));
                    }
                }
                (AppKind::WriteBlocked { off }, _) => {
                    blocked_since = Some((t, *off));
                    blocked_writes += 1;
                }
                (AppKind::Write { .. }, AppRes::Err(_)) => {
                    blocked_since = None;
                    wake_obligation = None;
                }
                _ => {}
            },
            X::DelivE(p, d) => {
                if d.corrupted || p.typ == codec::ST_SYN {
                    continue;
                }
                if p.typ == codec::ST_FIN || p.typ == codec::ST_RESET {
                    conn_over = true;
                }
                if let Some(n) = next_unsent {
                    // acknowledges (cumulatively or selectively) data that was never sent
                    if seq_diff(p.ack, n) >= 0 {
                        hostile = true;
                    }
                    if let Some(bits) = p.sack_bits() {
                        for (k, b) in bits.iter().enumerate() {
                            if *b && seq_diff(p.ack.wrapping_add(2).wrapping_add(k as u16), n) >= 0 {
                                hostile = true;
                            }
                        }
                    }
                }
                // a segment is acknowledged cumulatively or selectively; the ring releases the
                // longest acknowledged prefix (un-acked sequence numbers are kept in send order)
                let mut freed = 0i64;
                for s in unacked.iter() {
                    if let Some((_, a)) = sent.get_mut(s) {
                        if !*a && covers(p, *s) {
                            *a = true;
                        }
                    }
                }
                while let Some(s) = unacked.front().copied() {
                    match sent.get(&s) {
                        Some((l, true)) => {
                            freed += *l as i64;
                            unacked.pop_front();
                        }
                        _ => break,
                    }
                }
                if freed > 0 {
                    acked += freed;
                    freeing_ack_at = Some(t);
                    if blocked_since.is_some_and(|(tb, _)| tb < t || true) {
                        wake_obligation = Some(t);
                    }
                }
            }
            X::EmitE(p, _) => {
                if p.typ != codec::ST_DATA {
                    continue;
                }
                let len = p.payload.len();
                if next_unsent.is_none_or(|n| seq_diff(p.seq, n) >= 0) {
                    next_unsent = Some(p.seq.wrapping_add(1));
                }
                // stream offset of this sequence number
                let off = match start_off.get(&p.seq) {
                    Some(o) => *o,
                    None => {
                        let prev = p.seq.wrapping_sub(1);
                        let o = match (start_off.get(&prev), sent.get(&prev)) {
                            (Some(po), Some((pl, _))) => *po + *pl as u64,
                            _ => 0,
                        };
                        start_off.insert(p.seq, o);
                        o
                    }
                };
                if !hostile {
                    if let Some(i) = prf_mismatch(key, off, &p.payload) {
                        // (diagnosis: where in the written stream do these bytes come from?)
                        let from = (off.saturating_sub(70_000)..off + 70_000).find(|o| prf_mismatch(key, *o, &p.payload).is_none());
                        res.violate(P, "wire-payload-differs-from-written", t, format!("seq {} (stream offset {}, {} bytes): byte {} on the wire is not what the application wrote at offset {} (ring capacity now {}, grew: {}; the packet's bytes are the stream's at offset {:?})", p.seq, off, len, i, off + i as u64, ring_cap, grew, from));
                    }
                }
                match sent.get_mut(&p.seq) {
                    Some((l, _)) => *l = len,
                    None => {
                        sent.insert(p.seq, (len, false));
                        unacked.push_back(p.seq);
                    }
                }
            }
            X::Snap(s) => {
                if ring_cap != 0 && s.tx_ring_cap > ring_cap {
                    grew = true;
                    // the ring was (likely) wrapped if more bytes passed through it than its old size
                    if accepted as usize > ring_cap {
                        grew_wrapped = true;
                    }
                }
                ring_cap = s.tx_ring_cap;
                if s.tx_ring_cap as i64 > limit {
                    res.violate(P, "ring-larger-than-limit", t, format!("transmit ring capacity {} exceeds max(initial {}, maximum {})", s.tx_ring_cap, o.tx_init(), o.tx_max()));
                }
                if s.finished.is_some() {
                    conn_over = true;
                }
            }
            _ => {}
        }
    }
    let _ = freeing_ack_at;
    res.probe("blocked_writes", blocked_writes);
    res.hit("ring_grew", grew);
    res.hit("ring_grew_after_wrapping", grew_wrapped);
    res.relevant = blocked_writes > 0 && grew;
    res
}
