//! C15 — CUBIC window sanity, decided in situ: every controller call made by a running
//! connection is checked (H4 events).
use librqbit_utp::verif::{CcCall, CcState, ProbeEvent};

use super::OracleResult;
use crate::{scenario::Scenario, world::RunOutput};

pub const P: &str = "C15";

fn rwnd_bytes(s: &CcState) -> Option<f64> {
    s.raw.map(|(_, _, rwnd)| rwnd * s.smss as f64)
}

pub fn check(_sc: &Scenario, out: &RunOutput) -> OracleResult {
    let mut res = OracleResult::default();
    let mut n_rto = 0u64;
    let mut n_rec = 0u64;
    let mut n_mss = 0u64;
    let mut n_ss_ack = 0u64;
    let mut n_ca_ack = 0u64;
    // Pending MSS change per connection: window in bytes before the set_mss call.
    let mut pending_mss: std::collections::HashMap<_, f64> = Default::default();
    // per connection in fast recovery: (threshold set at entry, raw window in bytes before it)
    let mut entry: std::collections::HashMap<librqbit_utp::verif::ConnKey, (usize, f64)> = Default::default();
    for (t, p) in out.hist.probes() {
        let ProbeEvent::Cc { key, call, before, after } = p else { continue };
        let Some((cwnd, ssthresh, rwnd)) = after.raw else { continue };
        // finite, never NaN
        if !cwnd.is_finite() || rwnd.is_nan() || ssthresh.is_nan() || !rwnd.is_finite() {
            res.violate(P, "non-finite", t, format!("{:?}: after {:?} cwnd={} ssthresh={} rwnd={}", key, call, cwnd, ssthresh, rwnd));
            continue;
        }
        // bounds: min(2*mss, rwnd) <= window <= rwnd (1-byte rounding per float->int conversion)
        let rw = rwnd * after.smss as f64;
        let floor = (2.0 * after.smss as f64).min(rw);
        let w = after.window as f64;
        if w > rw + 1.0 || w < floor - 1.0 {
            res.violate(
                P,
                "window-bounds",
                t,
                format!("{:?}: after {:?} window={} not within [min(2*mss={}, rwnd)={}, rwnd={}]", key, call, after.window, 2 * after.smss, floor, rw),
            );
        }
        match call {
            CcCall::OnRto | CcCall::OnEnterRecovery => {
                if matches!(call, CcCall::OnRto) {
                    n_rto += 1;
                    if let Some(k) = key {
                        entry.remove(k);
                    }
                } else {
                    n_rec += 1;
                    if let (Some(k), Some((bc, _, _))) = (key, before.raw) {
                        entry.insert(*k, (after.sshthresh, bc * before.smss as f64));
                    }
                }
                if after.window > before.window {
                    res.violate(P, "loss-increases-window", t, format!("{:?}: {:?} raised window {} -> {}", key, call, before.window, after.window));
                }
                if let Some((bc, _, brw)) = before.raw {
                    // ssthresh = max(0.7 * previous window, 2 mss); previous window = raw cwnd or
                    // the rwnd-clamped one (both accepted).
                    let mss = before.smss as f64;
                    let cand = [bc, bc.max(2.0).min(brw), bc.min(brw)];
                    let got = after.sshthresh as f64;
                    let ok = cand.iter().any(|c| {
                        let want = (0.7 * c * mss).max(2.0 * mss);
                        (got - want).abs() <= 2.0 + want * 1e-9
                    });
                    if !ok {
                        res.violate(
                            P,
                            "ssthresh-after-loss",
                            t,
                            format!("{:?}: {:?} set ssthresh={} B; expected max(0.7*{:.1}, {}) (prev cwnd {:.3} mss, rwnd {:.3} mss, mss {})", key, call, after.sshthresh, bc * mss, 2.0 * mss, bc, brw, mss),
                        );
                    }
                }
            }
            CcCall::OnAck { len, .. } => {
                if let Some((bc, bss, _)) = before.raw {
                    if bc < bss {
                        n_ss_ack += 1;
                        let grow = after.window as i64 - before.window as i64;
                        if grow > *len as i64 + 1 {
                            res.violate(P, "slow-start-growth", t, format!("{:?}: ack of {} bytes grew window by {} ({} -> {})", key, len, grow, before.window, after.window));
                        }
                    } else {
                        n_ca_ack += 1;
                    }
                }
            }
            CcCall::SetMss(m) => {
                if *m != before.smss {
                    n_mss += 1;
                    if let (Some(k), Some((bc, _, _))) = (key, before.raw) {
                        // raw congestion window in bytes before the change
                        pending_mss.entry(*k).or_insert(bc * before.smss as f64);
                    }
                }
            }
            CcCall::SetRemoteWindow(_) => {
                if let Some(k) = key {
                    if let Some(w_before) = pending_mss.remove(k) {
                        // Same bytes once the peer window is re-applied, above the two-segment
                        // floor, within rounding (one byte per conversion and float error).
                        let floor = 2.0 * after.smss as f64;
                        let rwb = rwnd_bytes(after).unwrap_or(f64::MAX);
                        let expect = w_before.max(floor).min(rwb);
                        let got = after.window as f64;
                        if (got - expect).abs() > 2.0 + expect * 1e-9 {
                            res.violate(
                                P,
                                "mss-change-resets-window",
                                t,
                                format!("{:?}: congestion window was {:.0} B before MSS change, {} B after re-applying peer window (mss now {}, rwnd {} B)", key, w_before, after.window, after.smss, rwb),
                            );
                        }
                    }
                }
            }
            CcCall::OnRecovered { .. } => {
                // the reduction made when recovery was entered persists when it ends: the
                // threshold is not raised again, the raw window does not exceed what it was
                // before the loss (in bytes: MSS may have changed in between)
                if let Some((ss_entry, cwnd_bytes_before)) = key.and_then(|k| entry.remove(&k)) {
                    if after.sshthresh as f64 > ss_entry as f64 * 1.0001 + 2.0 * after.smss as f64 {
                        res.violate(P, "recovery-exit-raises-ssthresh", t, format!("{:?}: slow-start threshold {} after leaving recovery, but entering it had set {} (0.7 of the window, at least two segments)", key, after.sshthresh, ss_entry));
                    }
                    let cwnd_bytes_after = cwnd * after.smss as f64;
                    if cwnd_bytes_after > cwnd_bytes_before * 1.0001 + 2.0 * after.smss as f64 {
                        res.violate(P, "recovery-exit-raises-window", t, format!("{:?}: raw congestion window {:.0} bytes after leaving recovery exceeds the {:.0} bytes it had before the loss", key, cwnd_bytes_after, cwnd_bytes_before));
                    }
                }
            }
        }
        if !matches!(call, CcCall::SetMss(_) | CcCall::SetRemoteWindow(_)) {
            if let Some(k) = key {
                pending_mss.remove(k);
            }
        }
    }
    res.probe("cc_rto_events", n_rto);
    res.probe("cc_recovery_entries", n_rec);
    res.probe("cc_mss_changes", n_mss);
    res.probe("cc_slow_start_acks", n_ss_ack);
    res.probe("cc_congestion_avoidance_acks", n_ca_ack);
    res.relevant = n_rto + n_rec + n_mss > 0;
    res
}
