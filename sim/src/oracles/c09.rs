//! C09 — behaviour is invariant under the choice of initial sequence numbers and connection
//! ids (16-bit wrap safety). Metamorphic: the scenario is run a second time with nothing changed
//! but the values the environment's random_u16() returns (near 65535, at the sign boundary,
//! ...); the two packet traces and application histories must be equal after relabelling every
//! sequence / acknowledgement number and connection id by the difference of the initial values.
use std::net::SocketAddr;

use super::OracleResult;
use crate::{
    codec,
    hist::{Ev, Fate},
    scenario::Scenario,
    world::{self, RunOutput},
};

pub const P: &str = "C09";

#[derive(PartialEq, Eq, Debug, Clone)]
struct Norm {
    t: u64,
    what: String,
}

struct Base {
    a: SocketAddr, // connector
    cid: u16,      // connector's connection id (the id it receives on)
    isn_a: u16,
    isn_b: u16,
}

fn normalise(sc: &Scenario, out: &RunOutput, b: &Base) -> Vec<Norm> {
    let mut v = vec![];
    let _ = sc;
    for (t, ev) in &out.hist.evs {
        match ev {
            Ev::Emit(e) => {
                let fate = match &e.fate {
                    Fate::Deliver { at, dup_at } => format!("deliver@{} dup@{:?}", at, dup_at),
                    Fate::Dropped(r) => format!("dropped({:?})", r),
                };
                let body = match &e.pkt {
                    Some(p) => {
                        let (isn_self, isn_other) = if e.src == b.a { (b.isn_a, b.isn_b) } else { (b.isn_b, b.isn_a) };
                        // the SYN carries no acknowledgement yet (ack_nr is literally 0)
                        let ack = if p.typ == codec::ST_SYN { p.ack } else { p.ack.wrapping_sub(isn_other) };
                        format!(
                            "typ={} cid+{} seq+{} ack+{} wnd={} ts={} tsd={} exts={:?} len={} fnv={:016x}",
                            p.typ,
                            p.conn_id.wrapping_sub(b.cid),
                            p.seq.wrapping_sub(isn_self),
                            ack,
                            p.wnd,
                            p.ts,
                            p.ts_diff,
                            p.exts,
                            p.payload.len(),
                            {
                                let mut f = crate::util::Fnv::default();
                                f.bytes(&p.payload);
                                f.0
                            }
                        )
                    }
                    None => format!("unparsed {} bytes", e.raw.len()),
                };
                v.push(Norm { t: *t, what: format!("EMIT {}->{} {} {}", e.src.port(), e.dst.port(), body, fate) });
            }
            Ev::App(a) => {
                v.push(Norm { t: *t, what: format!("APP n{} c{} {:?} {:?} => {:?}", a.node, a.conn, a.half, a.kind, a.res) });
            }
            Ev::SendFail { src, dst, .. } => v.push(Norm { t: *t, what: format!("SENDFAIL {}->{}", src.port(), dst.port()) }),
            Ev::Fault(s) => v.push(Norm { t: *t, what: format!("FAULT {}", s) }),
            _ => {}
        }
    }
    v
}

pub fn variant(sc: &Scenario) -> Scenario {
    let mut s2 = sc.clone();
    let g = |k: &str| sc.param(k).unwrap_or(0) as u16;
    s2.nodes[0].env.forced = vec![g("v_cid_a"), g("v_isn_a")];
    s2.nodes[1].env.forced = vec![g("v_cid_b"), g("v_isn_b")];
    s2
}

pub fn check(sc: &Scenario, out: &RunOutput) -> OracleResult {
    let mut res = OracleResult::default();
    if sc.nodes.len() != 2 || sc.nodes[0].env.forced.len() < 2 || sc.nodes[1].env.forced.len() < 2 || sc.param("v_isn_a").is_none() {
        res.inconclusive = true;
        return res;
    }
    let base1 = Base { a: sc.addr(0), cid: sc.nodes[0].env.forced[0], isn_a: sc.nodes[0].env.forced[1], isn_b: sc.nodes[1].env.forced[1] };
    let sc2 = variant(sc);
    let out2 = world::run(&sc2);
    let base2 = Base { a: sc2.addr(0), cid: sc2.nodes[0].env.forced[0], isn_a: sc2.nodes[0].env.forced[1], isn_b: sc2.nodes[1].env.forced[1] };
    for p in &out2.hist.panics {
        if p.contains("/repo/src") {
            res.violate(P, "panic-under-shifted-isn", out2.t_end, format!("the run with initial numbers {:?}/{:?} panicked: {}", sc2.nodes[0].env.forced, sc2.nodes[1].env.forced, p));
        }
    }
    let n1 = normalise(sc, out, &base1);
    let n2 = normalise(&sc2, &out2, &base2);
    let k = n1.iter().zip(n2.iter()).position(|(x, y)| x != y);
    let first_diff = match k {
        Some(k) => Some(k),
        None if n1.len() != n2.len() => Some(n1.len().min(n2.len())),
        None => None,
    };
    if let Some(k) = first_diff {
        let show = |n: &Vec<Norm>| n.get(k).map(|x| format!("{} {}", crate::hist::fmt_t(x.t), x.what)).unwrap_or_else(|| "<trace ends>".into());
        res.violate(
            P,
            "trace-differs-under-isn-shift",
            n1.get(k).map(|x| x.t).unwrap_or(out.t_end),
            format!(
                "run with (cid, isn) {:?}/{:?} and run with {:?}/{:?} differ at event {} of {}/{} after relabelling: [{}] vs [{}]",
                sc.nodes[0].env.forced, sc.nodes[1].env.forced, sc2.nodes[0].env.forced, sc2.nodes[1].env.forced, k, n1.len(), n2.len(), show(&n1), show(&n2)
            ),
        );
    }
    // relevance: in the shifted run a data sequence number or an id actually wrapped
    let mut wrapped_seq = false;
    let mut wrapped_cid = false;
    let mut data = 0u64;
    for (_, e) in out2.hist.emits() {
        if let Some(p) = &e.pkt {
            let isn = if e.src == base2.a { base2.isn_a } else { base2.isn_b };
            if matches!(p.typ, codec::ST_DATA | codec::ST_FIN) {
                data += 1;
                if p.seq < isn {
                    wrapped_seq = true;
                }
            }
            if p.conn_id < base2.cid {
                wrapped_cid = true;
            }
        }
    }
    res.hit("shifted_run_seq_wrapped", wrapped_seq);
    res.hit("shifted_run_conn_id_wrapped", wrapped_cid);
    res.probe("shifted_run_data_packets", data);
    res.relevant = wrapped_seq;
    res
}
