//! Registry: which scenario families and which oracle decide each property.
use crate::{
    oracles::{self, OracleFn, OracleResult},
    scen_gen::{self as g, Profile},
    scenario::Scenario,
    world::RunOutput,
};

#[derive(Clone, Copy, PartialEq, Eq)]
pub enum SeedMode {
    /// run seed = hash(base seed, family, i)
    Hashed,
    /// run seed = (hash(base, family) << 20) | i : the generator decodes i (systematic placement)
    Index,
}

pub struct Family {
    pub name: &'static str,
    pub generate: fn(u64) -> Scenario,
    /// Number of runs in the quick / thorough tier.
    pub quick: u64,
    pub thorough: u64,
    /// Fault-free by design (a relevant run counts as non-trivial without a fault).
    pub fault_free: bool,
    pub seed_mode: SeedMode,
}

const fn fam(name: &'static str, generate: fn(u64) -> Scenario, quick: u64, thorough: u64) -> Family {
    Family { name, generate, quick, thorough, fault_free: false, seed_mode: SeedMode::Hashed }
}

fn c01_duplex(seed: u64) -> Scenario {
    g::duplex(seed, "c01_duplex", &Profile::full(65536))
}
fn c01_duplex_long(seed: u64) -> Scenario {
    let mut p = Profile::full(2 * 1024 * 1024);
    p.tiny_mss = false;
    g::duplex(seed, "c01_duplex_long", &p)
}
fn c02_fair(seed: u64) -> Scenario {
    g::c02_fair(seed, false)
}
fn c02_fair_defaults(seed: u64) -> Scenario {
    g::c02_fair(seed, true)
}
fn c02_single_drop(seed: u64) -> Scenario {
    let i = seed & 0xFFFFF;
    let s = (seed >> 20) + i / 96;
    g::c02_placement(s, &[i % 96])
}
fn c02_pair_drop(seed: u64) -> Scenario {
    let i = seed & 0xFFFFF;
    // 48 x 48 ordered pairs a<b over the first 48 datagrams
    let per = 48 * 47 / 2;
    let s = (seed >> 20) + i / per;
    let mut k = i % per;
    let mut a = 0u64;
    while k >= 47 - a {
        k -= 47 - a;
        a += 1;
    }
    let b = a + 1 + k;
    g::c02_placement(s ^ 0x5A5A, &[a, b])
}
fn ps_exact(seed: u64) -> Scenario {
    g::peer_sender(seed, "peer_sender_exact", true)
}
fn ps_exact_refusals(seed: u64) -> Scenario {
    g::peer_sender(seed, "peer_sender_exact_refusals", true)
}
fn ps_hostile(seed: u64) -> Scenario {
    g::peer_sender(seed, "peer_sender_hostile", false)
}
fn pr_generic(seed: u64) -> Scenario {
    g::peer_receiver(seed, "peer_receiver", 0)
}
fn pr_nosignal(seed: u64) -> Scenario {
    g::peer_receiver(seed, "peer_receiver_no_loss_signal", 1)
}
fn pr_retx(seed: u64) -> Scenario {
    g::peer_receiver(seed, "peer_receiver_retx", 2)
}
fn pr_nagle(seed: u64) -> Scenario {
    g::peer_receiver(seed, "peer_receiver_nagle", 3)
}
fn pr_buffer(seed: u64) -> Scenario {
    g::peer_receiver(seed, "peer_receiver_buffer", 4)
}
fn c15_extremes(seed: u64) -> Scenario {
    g::extremes(seed, "c15_extremes")
}

pub const ALL: &[&str] = &["C01", "C02", "C03", "C04", "C05", "C06", "C07", "C08", "C09", "C10", "C11", "C12", "C13", "C14", "C15", "C16", "C17", "C18", "C19"];

pub fn families(property: &str) -> Vec<Family> {
    match property {
        "C01" => vec![fam("c01_duplex", c01_duplex, 60_000, 1_500_000), fam("c01_duplex_long", c01_duplex_long, 200, 10_000)],
        "C02" => vec![
            fam("c02_fair", c02_fair, 15_000, 400_000),
            fam("c02_fair_defaults", c02_fair_defaults, 15_000, 400_000),
            Family { seed_mode: SeedMode::Index, ..fam("c02_single_drop", c02_single_drop, 96 * 200, 96 * 3000) },
            Family { seed_mode: SeedMode::Index, ..fam("c02_pair_drop", c02_pair_drop, 0, 1128 * 150) },
            Family { fault_free: true, ..fam("c02_prompt", g::c02_prompt, 25_000, 500_000) },
        ],
        "C03" => vec![fam("c03_termination", g::c03, 25_000, 600_000), fam("c03_close_races", g::c03_close_races, 15_000, 400_000)],
        "C04" => vec![Family { fault_free: true, ..fam("peer_sender_exact", ps_exact, 20_000, 500_000) }, Family { fault_free: true, ..fam("peer_sender_hostile", ps_hostile, 20_000, 500_000) }],
        "C05" => vec![
            Family { fault_free: true, ..fam("peer_receiver", pr_generic, 25_000, 600_000) },
            Family { fault_free: true, ..fam("peer_receiver_no_loss_signal", pr_nosignal, 25_000, 600_000) },
        ],
        "C06" => vec![
            Family { fault_free: true, ..fam("peer_receiver_retx", pr_retx, 30_000, 800_000) },
            Family { fault_free: true, ..fam("peer_receiver", pr_generic, 10_000, 300_000) },
            fam("c01_duplex", c01_duplex, 10_000, 300_000),
        ],
        "C18" => vec![Family { fault_free: true, ..fam("peer_receiver_nagle", pr_nagle, 40_000, 1_000_000) }, Family { fault_free: true, ..fam("peer_receiver", pr_generic, 10_000, 300_000) }],
        "C19" => vec![Family { fault_free: true, ..fam("peer_receiver_buffer", pr_buffer, 25_000, 600_000) }, Family { fault_free: true, ..fam("peer_receiver", pr_generic, 10_000, 300_000) }],
        "C07" => vec![Family { fault_free: true, ..fam("peer_sender_exact", ps_exact, 34_000, 850_000) }, fam("peer_sender_exact_refusals", ps_exact_refusals, 6_000, 150_000)],
        "C08" => vec![fam("c08_cycles", g::c08_cycles, 8_000, 200_000), fam("c13_pairing", g::c13_pairing, 4_000, 100_000)],
        "C09" => vec![fam("c09_isn", g::c09_isn, 25_000, 600_000), Family { fault_free: true, ..fam("c09_wide", g::c09_wide, 150, 5_000) }],
        "C10" => vec![Family { fault_free: true, ..fam("c10_hostile", g::c10_hostile, 20_000, 500_000) }],
        "C12" => vec![fam("c12_many", g::c12_many, 12_000, 300_000)],
        "C13" => vec![fam("c13_pairing", g::c13_pairing, 12_000, 300_000)],
        "C11" => vec![fam("c11_corrupt", g::c11_corrupt, 20_000, 500_000), fam("c11_unknown_ext", g::c11_unknown_ext, 10_000, 300_000), fam("c01_duplex", c01_duplex, 10_000, 200_000), fam("c13_pairing", g::c13_pairing, 4_000, 100_000), Family { fault_free: true, ..fam("peer_sender_exact", ps_exact, 10_000, 250_000) }],
        "C14" => vec![fam("c14_blackhole", g::c14_blackhole, 15_000, 400_000), fam("c14_converge", g::c14_converge, 600, 20_000), fam("c01_duplex", c01_duplex, 10_000, 200_000), fam("c14_near_rto", g::c14_near_rto, 8_000, 200_000)],
        "C15" | "C16" => vec![fam("c01_duplex", c01_duplex, 20_000, 500_000), fam("c15_extremes", c15_extremes, 15_000, 400_000), fam("c14_blackhole", g::c14_blackhole, 5_000, 100_000)],
        "C17" => vec![
            Family { fault_free: true, ..fam("c17_teardown", g::c17_teardown, 30_000, 800_000) },
            Family { fault_free: true, ..fam("peer_sender_hostile", ps_hostile, 8_000, 200_000) },
            Family { fault_free: true, ..fam("peer_receiver", pr_generic, 8_000, 200_000) },
        ],
        _ => vec![],
    }
}

fn retag(mut r: OracleResult, property: &'static str, prefix: &'static str) -> OracleResult {
    for v in r.violations.iter_mut() {
        v.property = property;
        v.tag = match (prefix, v.tag) {
            ("c14", "content-mismatch") => "blackhole-path-content-mismatch",
            ("c14", "read-more-than-written") => "blackhole-path-read-more-than-written",
            ("c11", "content-mismatch") => "unknown-extension-shifts-payload",
            ("c11", "read-more-than-written") => "unknown-extension-duplicates-payload",
            (_, t) => t,
        };
    }
    r
}

fn merge(mut a: OracleResult, b: OracleResult) -> OracleResult {
    a.violations.extend(b.violations);
    for (k, v) in b.probes {
        *a.probes.entry(k).or_insert(0) += v;
    }
    a.inconclusive |= b.inconclusive;
    a
}

fn c11_oracle(sc: &Scenario, out: &RunOutput) -> OracleResult {
    // scripted-sender world: what a serialised selective ACK says is compared with what the
    // endpoint holds (the receiver model of C04): "serialising a header and parsing it back
    // yields the same header" seen from the wire
    if sc.peer.is_some() {
        let mut a = oracles::c11::check(sc, out);
        let rel = a.relevant;
        let mut b = oracles::c04::check(sc, out);
        b.violations.retain(|v| matches!(v.tag, "sack-bit-missing" | "sack-bit-for-undelivered"));
        for v in b.violations.iter_mut() {
            v.property = "C11";
            v.tag = if v.tag == "sack-bit-missing" { "serialised-sack-omits-held-packet" } else { "serialised-sack-names-packet-not-held" };
        }
        a.violations.extend(b.violations);
        a.inconclusive |= b.inconclusive;
        a.relevant = rel || b.relevant;
        return a;
    }
    let a = oracles::c11::check(sc, out);
    if sc.family == "c11_unknown_ext" {
        let rel = a.relevant;
        let mut m = merge(a, retag(oracles::c01::check(sc, out), "C11", "c11"));
        m.relevant = rel;
        m
    } else {
        a
    }
}

fn c14_oracle(sc: &Scenario, out: &RunOutput) -> OracleResult {
    let a = oracles::c14::check(sc, out);
    let rel = a.relevant;
    let mut m = merge(a, retag(oracles::c01::check(sc, out), "C14", "c14"));
    m.relevant = rel;
    m
}

fn c06_oracle(sc: &Scenario, out: &RunOutput) -> OracleResult {
    if sc.peer.is_some() {
        oracles::c06::check(sc, out)
    } else {
        oracles::c06::check_duplex(sc, out)
    }
}

pub fn oracle(property: &str) -> OracleFn {
    match property {
        "C01" => oracles::c01::check,
        "C02" => oracles::c02::check,
        "C03" => oracles::c03::check,
        "C04" => oracles::c04::check,
        "C05" => oracles::c05::check,
        "C06" => c06_oracle,
        "C18" => oracles::c18::check,
        "C19" => oracles::c19::check,
        "C07" => oracles::c07::check,
        "C08" => oracles::c08::check,
        "C09" => oracles::c09::check,
        "C10" => oracles::c10::check,
        "C11" => c11_oracle,
        "C12" => oracles::c12::check,
        "C13" => oracles::c13::check,
        "C14" => c14_oracle,
        "C15" => oracles::c15::check,
        "C17" => oracles::c17::check,
        "C16" => oracles::c16::check,
        _ => panic!("no oracle for {}", property),
    }
}

pub fn expected_probes(property: &str) -> Vec<&'static str> {
    match property {
        "C01" => vec!["data_retransmissions", "duplicate_deliveries", "polls_with_out_of_order_data", "tx_ring_grew", "seq_wrapped", "mss_changed"],
        "C02" => vec!["drops_fired", "sender_saw_zero_window_with_data", "window_update_dropped", "idle_writes", "idle_shutdowns", "flushes"],
        "C03" => vec!["abort_landed_with_data_or_fin_outstanding", "flush_or_shutdown_ok_claims", "eof_observed", "read_error_observed", "shutdown_error_observed", "fin_lost"],
        "C04" => vec!["endpoint_emissions_checked", "sack_emitted", "out_of_order_held", "window_below_buffer", "fin_delivered_in_sequence"],
        "C05" => vec!["first_transmissions_checked", "sends_that_filled_the_window", "rto_events", "zero_windows_delivered"],
        "C06" => vec!["timeout_retransmissions", "fast_retransmissions", "fast_retransmit_triggers", "retransmission_cap_hit", "probe_resegmented"],
        "C18" => vec!["sub_segment_first_transmissions", "sub_segment_while_unacked"],
        "C19" => vec!["blocked_writes", "ring_grew", "ring_grew_after_wrapping"],
        "C07" => vec!["delayed_acks", "immediate_acks", "zero_window_reached"],
        "C08" => vec!["connection_tasks_created", "letgo_judged", "closing_packet_lost", "cancel_or_kill", "task_failed_with_error", "too_many_active_connections_seen"],
        "C09" => vec!["shifted_run_seq_wrapped", "shifted_run_conn_id_wrapped", "shifted_run_data_packets"],
        "C11" => vec!["emitted_datagrams_checked", "emitted_with_extension", "verdicts_accept_corrupted", "verdicts_reject_corrupted", "unknown_extension_delivered"],
        "C10" => vec!["hostile_datagrams_sent", "target_parser_rejections", "target_parser_acceptances", "honest_connections_completed", "attacker_connection_established", "direct_attack_on_honest_connection"],
        "C12" => vec!["max_live_connections_on_one_socket", "connections_established", "connections_completed_in_loss_free_runs", "connects_refused_at_the_limit"],
        "C13" => vec!["max_backlog_seen", "backlog_filled", "syns_refused_with_reset", "hand_overs_judged_for_order", "connects_ok", "connects_cancelled", "accepts_cancelled", "duplicate_syn_delivered", "connect_failed_for_lack_of_slot"],
        "C14" => vec!["probes_acked", "probes_failed_and_resegmented", "converged_transfers"],
        "C17" => vec!["state_x_packet_pairs", "peer_fin_in_sequence", "peer_fin_out_of_sequence", "reset_delivered", "own_fin_sent", "own_fin_retransmitted", "synack_retries_exhausted"],
        "C15" => vec!["cc_rto_events", "cc_recovery_entries", "cc_mss_changes", "cc_slow_start_acks", "cc_congestion_avoidance_acks"],
        "C16" => vec!["rto_samples", "rto_timeouts", "rto_backoff_chain_ge_3", "rto_reached_60s_cap", "rtt_sample_zero", "rtt_sample_gt_60s"],
        _ => vec![],
    }
}

pub fn rule(property: &str) -> String {
    let common = "cases = simulated runs; each run is a pure function of a seed-derived Scenario (configuration, workload script, fault decisions); a run is non-trivial when at least one fault fired (or the family is fault-free by design) AND the property's relevance probe fired; distinct = distinct trace shapes (hash of the sequence of (sender, packet type, first/re-transmission, SACK present, fate) and application-call outcome kinds, ignoring times and numbers). ";
    let rel = match property {
        "C01" => "relevance probe: at least one data retransmission or one end-of-poll snapshot with out-of-order data held, and at least one byte read.",
        "C02" => "relevance probe: (a) at least one budgeted drop fired; (b) at least one write or shutdown on an idle connection.",
        "C03" => "relevance probe: a termination fault (cut, kill, RESET, cancel) landed while data or a FIN was outstanding, or a FIN was lost.",
        "C04" => "relevance probe: the endpoint held at least one packet out of order when it emitted a datagram (scripted arrival orders are the 'faults' of this family).",
        "C05" => "relevance probe: at least one first transmission filled the advertised window (the next segment would not have fitted); scripted ACK/window histories are the 'faults' of this family.",
        "C06" => "relevance probe: at least one timeout retransmission and one fast (non-timeout) retransmission.",
        "C18" => "relevance probe: at least one first transmission smaller than the proven segment size.",
        "C19" => "relevance probe: at least one write blocked on a full ring and the ring grew at least once.",
        "C07" => "relevance probe: at least one delayed and one immediate acknowledgement were emitted (scripted arrival timings are the 'faults' of this family).",
        "C08" => "relevance probe: at least one closing packet (FIN/RESET) was lost and at least one let-go connection was judged against its bound.",
        "C09" => "relevance probe: in the shifted run a data/FIN sequence number actually wrapped past 65535 (each case is a PAIR of runs: base numbers and shifted numbers).",
        "C11" => "relevance probe: at least one corrupted datagram reached a real socket's parser (verdict recorded) and at least one emitted datagram was checked.",
        "C10" => "relevance probe: at least one hostile datagram was injected (hostile datagrams are the faults of this family; the network itself is loss-free so that honest connections must complete).",
        "C12" => "relevance probe: at least two connections were established (connect Ok and surfaced at an accept) in the run.",
        "C13" => "relevance probe: at least two connects surfaced at accept calls in the run.",
        "C14" => "relevance probe: at least one MTU probe was acknowledged and at least one failed and was re-segmented.",
        "C17" => "relevance probe: at least 4 distinct (connection state, delivered packet type) pairs were exercised in the run (scripted packet sequences and omissions are the 'faults' of this family).",
        "C15" => "relevance probe: at least one timeout, recovery entry or MSS change reached the congestion controller of a running connection.",
        "C16" => "relevance probe: the estimator of a running connection saw at least one sample and one timeout.",
        _ => "",
    };
    format!("{}{}", common, rel)
}

pub fn stubs(property: &str) -> Vec<&'static str> {
    let _ = property;
    vec!["UDP socket (SimTransport over SimNet)", "clock source (tokio paused clock via UtpEnvironment::now)", "random source (UtpEnvironment::random_u16, seeded)", "application (scripted reader/writer tasks using the real AsyncRead/AsyncWrite API)"]
}

pub fn assumptions(property: &str) -> Vec<&'static str> {
    let _ = property;
    vec![
        "single-threaded tokio runtime: interleaving granularity is one task poll (no preemption inside parking_lot/ringbuf critical sections)",
        "tokio's paused clock and timer wheel (1 ms granularity) are trusted",
        "sampling, not enumeration: a clean batch is evidence, not proof",
    ]
}
