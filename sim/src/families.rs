//! Registry: which scenario families and which oracle decide each property.
use crate::{
    scen_gen::{self as gen_, Profile},
    oracles::{self, OracleFn},
    scenario::Scenario,
};

pub struct Family {
    pub name: &'static str,
    pub generate: fn(u64) -> Scenario,
    /// Number of runs in the quick / thorough tier.
    pub quick: u64,
    pub thorough: u64,
    /// Fault-free by design (a relevant run counts as non-trivial without a fault).
    pub fault_free: bool,
}

fn c01_duplex(seed: u64) -> Scenario {
    gen_::duplex(seed, "c01_duplex", &Profile::full(65536))
}
fn c01_duplex_long(seed: u64) -> Scenario {
    let mut p = Profile::full(2 * 1024 * 1024);
    p.tiny_mss = false;
    gen_::duplex(seed, "c01_duplex_long", &p)
}

pub const ALL: &[&str] = &["C01"];

pub fn families(property: &str) -> Vec<Family> {
    match property {
        "C01" => vec![
            Family { name: "c01_duplex", generate: c01_duplex, quick: 60_000, thorough: 1_500_000, fault_free: false },
            Family { name: "c01_duplex_long", generate: c01_duplex_long, quick: 300, thorough: 10_000, fault_free: false },
        ],
        _ => vec![],
    }
}

pub fn oracle(property: &str) -> OracleFn {
    match property {
        "C01" => oracles::c01::check,
        _ => panic!("no oracle for {}", property),
    }
}

pub fn expected_probes(property: &str) -> Vec<&'static str> {
    match property {
        "C01" => vec!["data_retransmissions", "duplicate_deliveries", "polls_with_out_of_order_data", "tx_ring_grew", "seq_wrapped", "mss_changed"],
        _ => vec![],
    }
}

pub fn rule(property: &str) -> String {
    let common = "cases = simulated runs; each run is a pure function of a seed-derived Scenario (configuration, workload script, fault decisions); a run is non-trivial when at least one fault fired (or the family is fault-free by design) AND the property's relevance probe fired; distinct = distinct trace shapes (hash of the sequence of (sender, packet type, first/re-transmission, SACK present, fate) and application-call outcome kinds, ignoring times and numbers). ";
    let rel = match property {
        "C01" => "relevance probe: at least one data retransmission or one end-of-poll snapshot with out-of-order data held, and at least one byte read.",
        _ => "",
    };
    format!("{}{}", common, rel)
}

pub fn stubs(property: &str) -> Vec<&'static str> {
    let _ = property;
    vec!["UDP socket (SimTransport over SimNet)", "clock source (tokio paused clock via UtpEnvironment::now)", "random source (UtpEnvironment::random_u16, seeded)", "application (scripted reader/writer tasks using the real AsyncRead/AsyncWrite API)"]
}

pub fn assumptions(property: &str) -> Vec<&'static str> {
    let _ = property;
    vec![
        "single-threaded tokio runtime: interleaving granularity is one task poll (no preemption inside parking_lot/ringbuf critical sections)",
        "tokio's paused clock and timer wheel (1 ms granularity) are trusted",
        "sampling, not enumeration: a clean batch is evidence, not proof",
    ]
}
