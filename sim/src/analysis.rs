//! Views over a recorded History that several oracles share: connection table, per-direction
//! packet lists, application-level byte accounting.
use std::{
    collections::{BTreeMap, HashMap},
    net::SocketAddr,
};

use crate::{
    codec::{self, Pkt},
    hist::{AppKind, AppRes, Deliver, Emit, Ev, Half, History, T},
    scenario::Scenario,
    util::Fnv,
};

#[derive(Clone, Debug)]
pub struct Violation {
    pub property: &'static str,
    pub tag: &'static str,
    pub t: T,
    pub msg: String,
    /// Optional locating details used by known-finding signatures.
    pub offset: Option<u64>,
    pub stream_key: Option<u64>,
    pub aux: Option<u64>,
    /// Writer node of the stream the violation concerns (if any).
    pub wnode: Option<usize>,
    /// Node whose call/task the violation concerns (if any).
    pub node: Option<usize>,
}

impl Violation {
    pub fn new(property: &'static str, tag: &'static str, t: T, msg: String) -> Self {
        Violation { property, tag, t, msg, offset: None, stream_key: None, aux: None, wnode: None, node: None }
    }
}

/// A connection as seen on the wire, identified by its SYN.
#[derive(Clone, Debug)]
pub struct WireConn {
    pub connector: SocketAddr,
    pub acceptor: SocketAddr,
    /// connection id carried by the SYN (the connector receives on this id; sends on id+1).
    pub syn_id: u16,
    pub syn_seq: u16,
    pub t_syn: T,
}

/// One packet event of a flow: an emission by `src` or a delivery to `dst`.
#[derive(Clone, Debug)]
pub enum FlowEv<'a> {
    Emit(&'a Emit),
    Deliver(&'a Deliver),
}

pub struct ConnTable {
    pub conns: Vec<WireConn>,
    /// (src, dst, conn_id) -> (conn index, from_connector)
    map: HashMap<(SocketAddr, SocketAddr, u16), (usize, bool)>,
    pub ambiguous: bool,
}

impl ConnTable {
    pub fn build(h: &History) -> ConnTable {
        let mut conns: Vec<WireConn> = vec![];
        let mut map: HashMap<(SocketAddr, SocketAddr, u16), (usize, bool)> = HashMap::new();
        let mut ambiguous = false;
        // SYNs as emitted and as delivered (a corrupted SYN legitimately defines the ids the
        // acceptor uses).
        let syns = h.evs.iter().filter_map(|(t, ev)| match ev {
            Ev::Emit(e) => e.pkt.as_ref().map(|p| (*t, e.src, e.dst, p.clone())),
            Ev::Deliver(d) if d.corrupted => d.pkt.as_ref().map(|p| (*t, d.src, d.dst, p.clone())),
            _ => None,
        });
        struct E {
            src: SocketAddr,
            dst: SocketAddr,
        }
        for (t, src, dst, p) in syns {
            let e = E { src, dst };
            if p.typ != codec::ST_SYN {
                continue;
            }
            // Duplicate SYN emission (the library never retries; scripted peers may).
            if conns
                .iter()
                .any(|c| c.connector == e.src && c.acceptor == e.dst && c.syn_id == p.conn_id)
            {
                continue;
            }
            let idx = conns.len();
            conns.push(WireConn {
                connector: e.src,
                acceptor: e.dst,
                syn_id: p.conn_id,
                syn_seq: p.seq,
                t_syn: t,
            });
            for (key, val) in [
                ((e.src, e.dst, p.conn_id.wrapping_add(1)), (idx, true)),
                ((e.dst, e.src, p.conn_id), (idx, false)),
            ] {
                if map.insert(key, val).is_some() {
                    ambiguous = true;
                }
            }
        }
        ConnTable { conns, map, ambiguous }
    }

    /// Which connection does a datagram (src,dst,pkt) belong to, and is it from the connector?
    pub fn classify(&self, src: SocketAddr, dst: SocketAddr, p: &Pkt) -> Option<(usize, bool)> {
        if p.typ == codec::ST_SYN {
            return self
                .conns
                .iter()
                .position(|c| c.connector == src && c.acceptor == dst && c.syn_id == p.conn_id)
                .map(|i| (i, true));
        }
        self.map.get(&(src, dst, p.conn_id)).copied()
    }
}

/// All packets of one connection as seen by one endpoint `me`: what it emitted and what was
/// delivered to it, in global order.
pub struct EndpointView<'a> {
    pub me: SocketAddr,
    pub peer: SocketAddr,
    pub conn: usize,
    pub is_connector: bool,
    pub evs: Vec<(T, usize, FlowEv<'a>)>,
}

pub fn endpoint_views<'a>(h: &'a History, ct: &ConnTable) -> Vec<EndpointView<'a>> {
    let mut views: BTreeMap<(usize, bool), EndpointView<'a>> = BTreeMap::new();
    for (i, c) in ct.conns.iter().enumerate() {
        views.insert(
            (i, true),
            EndpointView { me: c.connector, peer: c.acceptor, conn: i, is_connector: true, evs: vec![] },
        );
        views.insert(
            (i, false),
            EndpointView { me: c.acceptor, peer: c.connector, conn: i, is_connector: false, evs: vec![] },
        );
    }
    for (idx, (t, ev)) in h.evs.iter().enumerate() {
        match ev {
            Ev::Emit(e) => {
                if let Some(p) = &e.pkt {
                    if let Some((ci, from_connector)) = ct.classify(e.src, e.dst, p) {
                        if let Some(v) = views.get_mut(&(ci, from_connector)) {
                            v.evs.push((*t, idx, FlowEv::Emit(e)));
                        }
                    }
                }
            }
            Ev::Deliver(d) => {
                if let Some(p) = &d.pkt {
                    if let Some((ci, from_connector)) = ct.classify(d.src, d.dst, p) {
                        if let Some(v) = views.get_mut(&(ci, !from_connector)) {
                            v.evs.push((*t, idx, FlowEv::Deliver(d)));
                        }
                    }
                }
            }
            _ => {}
        }
    }
    views.into_values().collect()
}

/// Application-level accounting for one stream direction: writer (node, conn) -> reader.
#[derive(Default, Debug, Clone)]
pub struct StreamAcct {
    pub written: u64,
    pub read: u64,
    pub eof: Option<T>,
    pub read_err: Option<(T, String)>,
    pub write_err: Option<(T, String)>,
    pub flush_ok: Vec<(T, u64)>,
    pub shutdown_ok: Option<(T, u64)>,
    pub shutdown_err: Option<(T, String)>,
    pub flush_err: Option<(T, String)>,
    pub mismatch: Option<(T, u64, String)>,
    pub over_read: Option<(T, u64, u64)>,
    pub writer_dropped: Option<T>,
    pub reader_dropped: Option<T>,
}

/// Streams keyed by (conn k, writer node).
pub fn stream_accounts(sc: &Scenario, h: &History) -> BTreeMap<(usize, usize), StreamAcct> {
    // Which node is the peer of (conn, node)?
    let mut peer_of: HashMap<(usize, usize), usize> = HashMap::new();
    for (k, c) in sc.connects.iter().enumerate() {
        peer_of.insert((k, c.node), c.to);
        peer_of.insert((k, c.to), c.node);
    }
    let mut accts: BTreeMap<(usize, usize), StreamAcct> = BTreeMap::new();
    for (t, a) in h.apps() {
        if a.conn >= 1000 {
            continue;
        }
        match a.half {
            Half::W => {
                let acct = accts.entry((a.conn, a.node)).or_default();
                match (&a.kind, &a.res) {
                    (AppKind::Write { .. }, AppRes::Ok(n)) => acct.written += *n as u64,
                    (AppKind::Write { .. }, AppRes::Err(e)) => {
                        acct.write_err.get_or_insert((t, e.clone()));
                    }
                    (AppKind::Flush, AppRes::Ok(_)) => acct.flush_ok.push((t, acct.written)),
                    (AppKind::Flush, AppRes::Err(e)) => {
                        acct.flush_err.get_or_insert((t, e.clone()));
                    }
                    (AppKind::Shutdown, AppRes::Ok(_)) => acct.shutdown_ok = Some((t, acct.written)),
                    (AppKind::Shutdown, AppRes::Err(e)) => acct.shutdown_err = Some((t, e.clone())),
                    (AppKind::DropHalf, _) => acct.writer_dropped = Some(t),
                    _ => {}
                }
            }
            Half::R => {
                // Reader at node a.node reads the stream written by its peer.
                let Some(&wnode) = peer_of.get(&(a.conn, a.node)) else { continue };
                let acct = accts.entry((a.conn, wnode)).or_default();
                match (&a.kind, &a.res) {
                    (AppKind::Read { .. }, AppRes::Ok(n)) => {
                        acct.read += *n as u64;
                        if acct.read > acct.written && acct.over_read.is_none() {
                            acct.over_read = Some((t, acct.read, acct.written));
                        }
                    }
                    (AppKind::Read { .. }, AppRes::Eof) => acct.eof = Some(t),
                    (AppKind::Read { .. }, AppRes::Err(e)) => acct.read_err = Some((t, e.clone())),
                    (AppKind::Mismatch { off }, AppRes::Err(e)) => {
                        acct.mismatch.get_or_insert((t, *off, e.clone()));
                    }
                    (AppKind::DropHalf, _) => acct.reader_dropped = Some(t),
                    _ => {}
                }
            }
        }
    }
    accts
}

/// Shape hash of a run: the sequence of (direction, packet type, first/re-transmission, fate
/// kind) and application outcome kinds, ignoring times and numbers.
pub fn trace_shape(h: &History) -> u64 {
    let mut f = Fnv::default();
    let mut seen: std::collections::HashSet<(SocketAddr, u16, u16, u8)> = Default::default();
    for (_, ev) in &h.evs {
        match ev {
            Ev::Emit(e) => {
                f.u64(1);
                f.u64(e.src.port() as u64);
                if let Some(p) = &e.pkt {
                    f.u64(p.typ as u64);
                    let first = seen.insert((e.src, p.conn_id, p.seq, p.typ));
                    f.u64(first as u64);
                    f.u64(p.sack_bits().is_some() as u64);
                } else {
                    f.u64(99);
                }
                f.u64(match e.fate {
                    crate::hist::Fate::Deliver { dup_at: None, .. } => 0,
                    crate::hist::Fate::Deliver { dup_at: Some(_), .. } => 1,
                    crate::hist::Fate::Dropped(r) => 2 + r as u64,
                });
            }
            Ev::Deliver(d) => {
                f.u64(2);
                f.u64(d.dst.port() as u64);
                f.u64(d.pkt.as_ref().map(|p| p.typ as u64).unwrap_or(99));
            }
            Ev::SendFail { kind, .. } => {
                f.u64(3);
                f.str(kind);
            }
            Ev::App(a) => {
                let kind = match &a.kind {
                    AppKind::Read { .. } | AppKind::ReadStart { .. } | AppKind::Write { .. } | AppKind::WriteBlocked { .. } => continue,
                    AppKind::ConnectStart => 1,
                    AppKind::ConnectDone => 2,
                    AppKind::AcceptStart => 3,
                    AppKind::AcceptDone => 4,
                    AppKind::Flush => 5,
                    AppKind::FlushStart => 6,
                    AppKind::Shutdown => 7,
                    AppKind::ShutdownStart => 8,
                    AppKind::Mismatch { .. } => 9,
                    AppKind::DropHalf => 10,
                    AppKind::Cancel => 11,
                    AppKind::Note(_) => 12,
                };
                f.u64(4);
                f.u64(a.node as u64);
                f.u64(kind);
                f.u64(match a.res {
                    AppRes::Ok(_) => 0,
                    AppRes::Eof => 1,
                    AppRes::Err(_) => 2,
                    AppRes::Dropped => 3,
                    AppRes::Pending => 4,
                });
            }
            Ev::Probe(_) => {}
            Ev::Fault(s) => {
                f.u64(5);
                f.str(s);
            }
        }
    }
    f.0
}

/// Abstract protocol state tuple reached (for the coverage measure): hashed from connection
/// snapshots.
pub fn abstract_states(h: &History, out: &mut std::collections::HashSet<u64>) {
    use librqbit_utp::verif::ProbeEvent;
    for (_, p) in h.probes() {
        if let ProbeEvent::ConnPoll(s) = p {
            let mut f = Fnv::default();
            f.str(s.state);
            f.u64(s.recovering as u64);
            f.u64((s.rto_retransmissions.min(3)) as u64);
            f.u64((s.last_remote_window == 0) as u64);
            f.u64((s.rx_window == 0) as u64);
            f.u64((s.rx_ooq_bytes > 0) as u64);
            f.u64((s.flight_size > 0) as u64);
            f.u64((s.unsegmented > 0) as u64);
            f.u64((s.mss != s.max_ss) as u64);
            f.u64(s.transport_pending as u64);
            f.u64(s.writer_dropped as u64 | (s.writer_shutdown as u64) << 1 | (s.reader_dropped as u64) << 2);
            f.u64(s.finished.is_some() as u64);
            out.insert(f.0);
        }
    }
}
