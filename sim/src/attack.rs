//! Attacker: a raw uTP speaker that sends hostile datagrams at one real socket (C10). It can
//! open a connection of its own (valid handshake, valid token, then hostile in-connection
//! traffic), send from its own address or with the spoofed address of another node, and aim at
//! unknown connection ids, at its own connection, or next to / at a victim connection.
use std::{net::SocketAddr, time::Duration};

use serde::{Deserialize, Serialize};

use crate::{
    codec::{self, Pkt},
    hist::{Ev, History},
    util::{h3, prf_fill},
    world::Ctx,
};

#[derive(Clone, Debug, PartialEq, Serialize, Deserialize)]
pub enum Src {
    Own,
    /// Spoof the address of real node i.
    Spoof(usize),
    /// An address nobody is bound to (backscatter goes nowhere).
    Nowhere(u16),
}

#[derive(Clone, Debug, PartialEq, Serialize, Deserialize)]
pub enum CidSel {
    Abs(u16),
    /// The id the attacker's own connection sends with, plus delta.
    Own(i32),
    /// The id the victim connection's packets towards the target carry, plus delta.
    Victim(i32),
}

#[derive(Clone, Debug, PartialEq, Serialize, Deserialize)]
pub enum NumSel {
    Abs(u16),
    /// Relative to the sender-side next sequence number (own connection, or the spoofed
    /// node's latest sequence number towards the target).
    Mine(i32),
    /// Relative to the latest sequence number the target sent (own connection / victim).
    Theirs(i32),
}

#[derive(Clone, Debug, PartialEq, Serialize, Deserialize)]
pub enum ExtSpec {
    None,
    /// Selective ACK with these raw bytes (any length, also 0, odd, 255).
    Sack(Vec<u8>),
    /// Some other extension id.
    Other { id: u8, data: Vec<u8> },
    /// first-extension byte set, chain bytes appended verbatim (may overrun the datagram).
    Raw { first: u8, bytes: Vec<u8> },
}

#[derive(Clone, Debug, PartialEq, Serialize, Deserialize)]
pub enum Kind {
    Garbage { len: usize },
    Header { typ: u8, ver: u8, cid: CidSel, seq: NumSel, ack: NumSel, wnd: u32, ext: ExtSpec, payload: usize, truncate_to: Option<usize> },
    /// A fresh SYN (connection attempt) with these numbers.
    Syn { cid: u16, seq: u16 },
    /// Well-formed in-sequence data on the attacker's own connection (its app stream).
    ValidData { len: usize },
    /// Well-formed cumulative ACK of everything received on the own connection.
    ValidAck,
    /// `in_order` well-formed in-sequence data packets followed at the same instant by one data
    /// packet `ahead` sequence numbers beyond the next expected one (aimed at the far edge of
    /// the target's reassembly window while in-order data is still parked in front of it).
    EdgeData { in_order: usize, ahead: u16 },
}

#[derive(Clone, Debug, PartialEq, Serialize, Deserialize)]
pub struct AttackStep {
    pub at_ms: u64,
    pub src: Src,
    pub kind: Kind,
}

#[derive(Clone, Debug, PartialEq, Serialize, Deserialize)]
pub struct OwnConn {
    pub cid: u16,
    pub isn: u16,
    /// Index of the (dummy) ConnectScript whose stream key the attacker's valid data uses.
    pub connect_k: usize,
    pub at_ms: u64,
}

#[derive(Clone, Debug, PartialEq, Serialize, Deserialize)]
pub struct AttackScript {
    pub seed: u64,
    /// Node index (beyond the real nodes) giving the attacker's own address.
    pub idx: usize,
    pub target: usize,
    pub own: Option<OwnConn>,
    pub steps: Vec<AttackStep>,
}

impl AttackScript {
    /// A step that spoofs the victim's address AND names exactly the victim's connection id is
    /// an attack on that connection itself (allowed to break it).
    pub fn has_direct_attack(&self) -> bool {
        self.steps.iter().any(|s| matches!((&s.src, &s.kind), (Src::Spoof(_), Kind::Header { cid: CidSel::Victim(0), .. })))
    }
    pub fn syn_count(&self) -> usize {
        self.steps.iter().filter(|s| matches!(s.kind, Kind::Syn { .. } | Kind::Header { typ: 4, ver: 1, .. })).count() + self.own.is_some() as usize
    }
}

struct Own {
    id_send: u16,
    seq_next: u16,
    stream_off: u64,
    key: u64,
    their_seq: Option<u16>,
    rcv: std::collections::BTreeSet<u16>,
    rcv_cum: Option<u16>,
}

/// Latest (conn id, seq, ack) of a parsed datagram on the wire from `from` to `to`, and the
/// latest seq `to` sent to `from`.
fn victim_view(h: &History, from: SocketAddr, to: SocketAddr) -> Option<(u16, u16, u16)> {
    let mut last_from: Option<(u16, u16)> = None;
    let mut last_to: Option<u16> = None;
    for (_, ev) in h.evs.iter().rev() {
        if let Ev::Emit(e) = ev {
            if !e.real {
                continue;
            }
            if let Some(p) = &e.pkt {
                if p.typ == codec::ST_SYN {
                    continue;
                }
                if e.src == from && e.dst == to && last_from.is_none() {
                    last_from = Some((p.conn_id, p.seq));
                }
                if e.src == to && e.dst == from && last_to.is_none() {
                    last_to = Some(p.seq);
                }
            }
        }
        if last_from.is_some() && last_to.is_some() {
            break;
        }
    }
    if last_from.is_none() {
        // nothing from the victim's peer yet, but the target's own SYN towards it is out: its
        // id is the one the target will receive on
        for (_, ev) in h.evs.iter().rev() {
            if let Ev::Emit(e) = ev {
                if let Some(p) = e.pkt.as_ref().filter(|p| e.real && p.typ == codec::ST_SYN && e.src == to && e.dst == from) {
                    return Some((p.conn_id, 0, p.seq));
                }
            }
        }
    }
    let (cid, seq) = last_from?;
    Some((cid, seq, last_to.unwrap_or(0)))
}

pub fn spawn(ctx: &Ctx, script: &AttackScript) {
    let ctx = ctx.clone();
    let sc = ctx.sc.clone();
    let script = script.clone();
    let me = sc.addr(script.idx);
    let target = sc.addr(script.target);
    let ep = ctx.net.bind_raw(me);
    // addresses nobody listens on still have to exist on the simulated net to be a source
    let mut nowhere = vec![];
    for s in &script.steps {
        if let Src::Nowhere(k) = &s.src {
            let a = sc.addr(40 + (*k as usize % 100));
            if !nowhere.iter().any(|(x, _)| *x == a) {
                nowhere.push((a, ctx.net.bind_raw(a)));
            }
        }
    }
    tokio::spawn(async move {
        let _keep = nowhere;
        let mut own: Option<Own> = None;
        let mut steps = script.steps.clone();
        if let Some(o) = &script.own {
            // (first among the steps of its millisecond: data may ride right behind it)
            steps.insert(0, AttackStep { at_ms: o.at_ms, src: Src::Own, kind: Kind::Syn { cid: o.cid, seq: o.isn } });
        }
        steps.sort_by_key(|s| s.at_ms);
        let start = tokio::time::Instant::now();
        let mut i = 0usize;
        let mut n_sent = 0u64;
        loop {
            let next_at = steps.get(i).map(|s| start + Duration::from_millis(s.at_ms));
            let sleep = async {
                match next_at {
                    Some(t) => tokio::time::sleep_until(t).await,
                    None => std::future::pending::<()>().await,
                }
            };
            tokio::select! {
                biased;
                (raw, from) = ep.recv() => {
                    if from != target { continue; }
                    let Ok(p) = Pkt::parse(&raw) else { continue };
                    if let Some(o) = own.as_mut() {
                        // (replies to the attacker's stray SYNs and probes carry other ids)
                        if p.conn_id != o.id_send.wrapping_sub(1) {
                            continue;
                        }
                        o.their_seq = Some(p.seq);
                        if p.typ == codec::ST_DATA || p.typ == codec::ST_FIN {
                            o.rcv.insert(p.seq);
                            let mut c = o.rcv_cum.unwrap_or(p.seq.wrapping_sub(1));
                            // (first data packet defines the base if nothing was known)
                            while o.rcv.remove(&c.wrapping_add(1)) {
                                c = c.wrapping_add(1);
                            }
                            o.rcv_cum = Some(c);
                        } else if o.rcv_cum.is_none() && p.typ == codec::ST_STATE {
                            // SYN-ACK: the acceptor's first data packet will carry this number
                            o.rcv_cum = Some(p.seq.wrapping_sub(1));
                        }
                    }
                }
                _ = sleep => {
                    let Some(step) = steps.get(i).cloned() else { continue };
                    i += 1;
                    n_sent += 1;
                    // the attacker's own connection lives at its own address
                    let own_traffic = matches!(step.kind, Kind::ValidData { .. } | Kind::ValidAck | Kind::EdgeData { .. });
                    let src = match &step.src {
                        _ if own_traffic => me,
                        Src::Own => me,
                        Src::Spoof(n) => sc.addr(*n),
                        Src::Nowhere(k) => sc.addr(40 + (*k as usize % 100)),
                    };
                    // numbers the selectors refer to
                    let (cid_own, mine, theirs) = match &own {
                        Some(o) => (o.id_send, o.seq_next, o.their_seq.unwrap_or(0)),
                        None => (0, 0, 0),
                    };
                    let vict = match &step.src {
                        Src::Spoof(n) => victim_view(&ctx.hist.lock().unwrap(), sc.addr(*n), target),
                        _ => {
                            // the victim as seen from outside: any real node talking to the target
                            (0..sc.nodes.len()).filter(|n| *n != script.target).find_map(|n| victim_view(&ctx.hist.lock().unwrap(), sc.addr(n), target))
                        }
                    };
                    let spoofing = matches!(step.src, Src::Spoof(_));
                    let raw: Vec<u8> = match &step.kind {
                        Kind::Garbage { len } => {
                            let mut b = vec![0u8; *len];
                            for (j, x) in b.iter_mut().enumerate() {
                                *x = h3(script.seed, n_sent, j as u64) as u8;
                            }
                            b
                        }
                        Kind::Syn { cid, seq } => {
                            if matches!(step.src, Src::Own) && script.own.as_ref().is_some_and(|o| o.cid == *cid && o.isn == *seq) && own.is_none() {
                                let o = script.own.as_ref().unwrap();
                                own = Some(Own { id_send: cid.wrapping_add(1), seq_next: seq.wrapping_add(1), stream_off: 0, key: sc.stream_key(o.connect_k, 0), their_seq: None, rcv: Default::default(), rcv_cum: None });
                            }
                            Pkt::new(codec::ST_SYN, *cid, *seq, 0, 0).serialize()
                        }
                        Kind::ValidData { len } => {
                            let Some(o) = own.as_mut() else { continue };
                            let mut p = Pkt::new(codec::ST_DATA, o.id_send, o.seq_next, o.rcv_cum.unwrap_or(0), 1 << 20);
                            let mut payload = vec![0u8; (*len).max(1)];
                            prf_fill(o.key, o.stream_off, &mut payload);
                            o.stream_off += payload.len() as u64;
                            o.seq_next = o.seq_next.wrapping_add(1);
                            p.payload = payload;
                            p.serialize()
                        }
                        Kind::EdgeData { in_order, ahead } => {
                            let Some(o) = own.as_mut() else { continue };
                            for _ in 0..*in_order {
                                let mut p = Pkt::new(codec::ST_DATA, o.id_send, o.seq_next, o.rcv_cum.unwrap_or(0), 1 << 20);
                                let mut payload = vec![0u8; 16];
                                prf_fill(o.key, o.stream_off, &mut payload);
                                o.stream_off += payload.len() as u64;
                                o.seq_next = o.seq_next.wrapping_add(1);
                                p.payload = payload;
                                ep.send_from(me, target, p.serialize());
                            }
                            let mut p = Pkt::new(codec::ST_DATA, o.id_send, o.seq_next.wrapping_add(*ahead), o.rcv_cum.unwrap_or(0), 1 << 20);
                            p.payload = vec![0xEE; 16];
                            p.serialize()
                        }
                        Kind::ValidAck => {
                            let Some(o) = own.as_ref() else { continue };
                            Pkt::new(codec::ST_STATE, o.id_send, o.seq_next, o.rcv_cum.unwrap_or(0), 1 << 20).serialize()
                        }
                        Kind::Header { typ, ver, cid, seq, ack, wnd, ext, payload, truncate_to } => {
                            // nothing of the victim on the wire yet: nothing to aim next to
                            if vict.is_none() && (matches!(cid, CidSel::Victim(_)) || spoofing) {
                                continue;
                            }
                            let (v_cid, v_mine, v_theirs) = vict.unwrap_or((0, 0, 0));
                            let cid = match cid {
                                CidSel::Abs(x) => *x,
                                CidSel::Own(d) => (cid_own as i32 + d) as u16,
                                CidSel::Victim(d) => (v_cid as i32 + d) as u16,
                            };
                            let sel = |s: &NumSel| match s {
                                NumSel::Abs(x) => *x,
                                NumSel::Mine(d) => ((if spoofing { v_mine } else { mine }) as i32 + d) as u16,
                                NumSel::Theirs(d) => ((if spoofing { v_theirs } else { theirs }) as i32 + d) as u16,
                            };
                            let mut p = Pkt::new(*typ & 0x0f, cid, sel(seq), sel(ack), *wnd);
                            p.ver = *ver;
                            p.ts = (crate::hist::now() / 1000) as u32;
                            let mut raw_tail: Option<(u8, Vec<u8>)> = None;
                            match ext {
                                ExtSpec::None => {}
                                ExtSpec::Sack(d) => p.exts.push((codec::EXT_SACK, d.clone())),
                                ExtSpec::Other { id, data } => p.exts.push((*id, data.clone())),
                                ExtSpec::Raw { first, bytes } => raw_tail = Some((*first, bytes.clone())),
                            }
                            let mut pl = vec![0u8; *payload];
                            for (j, x) in pl.iter_mut().enumerate() {
                                *x = h3(script.seed ^ 0xBAD, n_sent, j as u64) as u8;
                            }
                            p.payload = pl;
                            let mut b = p.serialize();
                            // (serialize masks nothing: put the raw type nibble back)
                            b[0] = (*typ << 4) | (*ver & 0x0f);
                            if let Some((first, bytes)) = raw_tail {
                                b[1] = first;
                                let tail = b.split_off(20);
                                b.extend_from_slice(&bytes);
                                b.extend_from_slice(&tail);
                            }
                            if let Some(n) = truncate_to {
                                b.truncate(*n);
                            }
                            b
                        }
                    };
                    {
                        let mut h = ctx.hist.lock().unwrap();
                        h.count_fault("hostile_datagram");
                    }
                    ep.send_from(src, target, raw);
                }
            }
        }
    });
}
