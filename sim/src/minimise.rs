//! Bounded minimisation of a failing scenario: explicit fault list + ddmin, workload
//! shrinking, configuration reset. A candidate is kept only if the same (property, tag) fails.
use std::time::Instant;

use serde_json::json;

use crate::{
    scenario::{ROp, Scenario, WOp},
};

struct Ctx<'a> {
    pred: &'a dyn Fn(&Scenario) -> bool,
    runs: u64,
    t0: Instant,
    budget_s: f64,
    max_runs: u64,
}

impl Ctx<'_> {
    fn fails(&mut self, sc: &Scenario) -> bool {
        self.runs += 1;
        (self.pred)(sc)
    }
    fn out_of_budget(&self) -> bool {
        self.t0.elapsed().as_secs_f64() > self.budget_s || self.runs >= self.max_runs
    }
}

fn script_weight(sc: &Scenario) -> u64 {
    let w = |ops: &Vec<WOp>| -> u64 {
        ops.iter()
            .map(|o| match o {
                WOp::Write { n, .. } => 10 + *n,
                WOp::WriteImpatient { n, .. } => 12 + *n,
                _ => 10,
            })
            .sum()
    };
    let r = |ops: &Vec<ROp>| -> u64 { ops.len() as u64 * 10 };
    sc.connects.iter().map(|c| w(&c.side.w) + r(&c.side.r) + 50).sum::<u64>()
        + sc.accepts.iter().map(|c| w(&c.side.w) + r(&c.side.r) + 50).sum::<u64>()
        + sc.global.len() as u64 * 20
        + sc.peer.as_ref().map(|p| p.weight()).unwrap_or(0)
}

pub fn minimise(sc: &Scenario, budget_s: f64, pred: &dyn Fn(&Scenario) -> bool) -> (Scenario, serde_json::Value) {
    let mut cx = Ctx { pred, runs: 0, t0: Instant::now(), budget_s, max_runs: 2000 };
    let mut best = sc.clone();
    let orig_weight = script_weight(sc);

    // 1. Explicit fault list.
    let mut explicit_ok = false;
    if best.net.explicit.is_none() {
        let out = crate::world::run(&best);
        let mut cand = best.clone();
        cand.net.explicit = Some(out.realised.clone());
        if cx.fails(&cand) {
            best = cand;
            explicit_ok = true;
        }
    } else {
        explicit_ok = true;
    }
    let orig_faults = best.net.explicit.as_ref().map(|e| e.len()).unwrap_or(0);

    // 2. ddmin over the explicit decisions.
    if explicit_ok {
        let mut list = best.net.explicit.clone().unwrap();
        let mut n = 2usize;
        while list.len() >= 1 && !cx.out_of_budget() {
            let chunk = list.len().div_ceil(n);
            let mut reduced = false;
            let mut i = 0;
            while i < list.len() && !cx.out_of_budget() {
                let mut cand_list = list.clone();
                let end = (i + chunk).min(cand_list.len());
                cand_list.drain(i..end);
                let mut cand = best.clone();
                cand.net.explicit = Some(cand_list.clone());
                if cx.fails(&cand) {
                    list = cand_list;
                    best = cand;
                    reduced = true;
                    n = n.saturating_sub(1).max(2);
                } else {
                    i += chunk;
                }
            }
            if !reduced {
                if chunk <= 1 {
                    break;
                }
                n = (n * 2).min(list.len().max(2));
            }
        }
    }

    // 3. Workload shrinking: drop ops, halve write sizes.
    #[derive(Clone, Copy)]
    enum SideRef {
        Connect(usize),
        Accept(usize),
    }
    fn side_mut(sc: &mut Scenario, r: SideRef) -> &mut crate::scenario::Side {
        match r {
            SideRef::Connect(i) => &mut sc.connects[i].side,
            SideRef::Accept(i) => &mut sc.accepts[i].side,
        }
    }
    for gi in (0..best.global.len()).rev() {
        if cx.out_of_budget() {
            break;
        }
        let mut cand = best.clone();
        cand.global.remove(gi);
        if cx.fails(&cand) {
            best = cand;
        }
    }
    let mut refs: Vec<SideRef> = (0..best.connects.len()).map(SideRef::Connect).collect();
    refs.extend((0..best.accepts.len()).map(SideRef::Accept));
    for r in refs {
        // remove write ops
        let mut oi = 0;
        while oi < side_mut(&mut best, r).w.len() && !cx.out_of_budget() {
            let mut cand = best.clone();
            side_mut(&mut cand, r).w.remove(oi);
            if cx.fails(&cand) {
                best = cand;
            } else {
                oi += 1;
            }
        }
        // halve write sizes
        for oi in 0..side_mut(&mut best, r).w.len() {
            while !cx.out_of_budget() {
                let mut cand = best.clone();
                let changed = match &mut side_mut(&mut cand, r).w[oi] {
                    WOp::Write { n, .. } | WOp::WriteImpatient { n, .. } if *n > 1 => {
                        *n /= 2;
                        true
                    }
                    _ => false,
                };
                if !changed {
                    break;
                }
                if cx.fails(&cand) {
                    best = cand;
                } else {
                    break;
                }
            }
        }
        // remove read ops except the last
        let mut oi = 0;
        while side_mut(&mut best, r).r.len() > 1 && oi + 1 < side_mut(&mut best, r).r.len() && !cx.out_of_budget() {
            let mut cand = best.clone();
            side_mut(&mut cand, r).r.remove(oi);
            if cx.fails(&cand) {
                best = cand;
            } else {
                oi += 1;
            }
        }
    }

    // 4. Scripted peer shrinking.
    if best.peer.is_some() && !cx.out_of_budget() {
        let mut changed = true;
        while changed && !cx.out_of_budget() {
            changed = false;
            let n = best.peer.as_ref().unwrap().steps.len();
            for i in (0..n).rev() {
                if cx.out_of_budget() {
                    break;
                }
                let mut cand = best.clone();
                cand.peer.as_mut().unwrap().steps.remove(i);
                if cx.fails(&cand) {
                    best = cand;
                    changed = true;
                }
            }
        }
    }

    // 5. Configuration reset to defaults, one field at a time.
    for ni in 0..best.nodes.len() {
        let d = crate::scenario::OptsCfg::default();
        macro_rules! try_reset {
            ($f:ident) => {
                if best.nodes[ni].opts.$f != d.$f && !cx.out_of_budget() {
                    let mut cand = best.clone();
                    cand.nodes[ni].opts.$f = d.$f.clone();
                    if cx.fails(&cand) {
                        best = cand;
                    }
                }
            };
        }
        try_reset!(link_mtu);
        try_reset!(rx_buf);
        try_reset!(tx_init);
        try_reset!(tx_max);
        try_reset!(disable_nagle);
        try_reset!(cc_tracing);
        try_reset!(max_retx);
        try_reset!(inactivity_ms);
        try_reset!(max_live);
        try_reset!(dont_wait_lastack);
        try_reset!(mtu_probe_retx);
        if !best.nodes[ni].env.forced.is_empty() && !cx.out_of_budget() {
            let mut cand = best.clone();
            cand.nodes[ni].env.forced.clear();
            if cx.fails(&cand) {
                best = cand;
            }
        }
    }

    let info = json!({
        "runs": cx.runs,
        "wall_s": cx.t0.elapsed().as_secs_f64(),
        "explicit_fault_list": explicit_ok,
        "fault_decisions_before": orig_faults,
        "fault_decisions_after": best.net.explicit.as_ref().map(|e| e.len()),
        "script_weight_before": orig_weight,
        "script_weight_after": script_weight(&best),
    });
    (best, info)
}
