//! The recorded history of one simulated run: wire log, application log, probe log.
use std::{
    net::SocketAddr,
    sync::{Arc, Mutex},
};

use librqbit_utp::verif::ProbeEvent;

use crate::codec::Pkt;
use crate::util::Fnv;

/// Virtual time in nanoseconds since the start of the run.
pub type T = u64;

pub const MS: u64 = 1_000_000;
pub const SEC: u64 = 1_000_000_000;

thread_local! {
    static START: std::cell::Cell<Option<tokio::time::Instant>> = const { std::cell::Cell::new(None) };
}

pub fn set_start(i: tokio::time::Instant) {
    START.with(|s| s.set(Some(i)));
}

pub fn start() -> tokio::time::Instant {
    START.with(|s| s.get()).expect("run start not set")
}

pub fn now() -> T {
    (tokio::time::Instant::now() - start()).as_nanos() as u64
}

#[derive(Clone, Copy, Debug, PartialEq, Eq)]
pub enum DropReason {
    Random,
    Burst,
    BlackHole,
    Cut,
    NoRoute,
    DeadEndpoint,
    Budgeted,
}

#[derive(Clone, Copy, Debug, PartialEq, Eq)]
pub enum Fate {
    Deliver { at: T, dup_at: Option<T> },
    Dropped(DropReason),
}

#[derive(Clone, Debug)]
pub struct Emit {
    pub ord: u64,
    pub att: u64,
    pub src: SocketAddr,
    pub dst: SocketAddr,
    pub raw: Arc<Vec<u8>>,
    /// Reference-parser view (None if the reference parser rejects the datagram).
    pub pkt: Option<Arc<Pkt>>,
    pub ip_size: usize,
    pub fate: Fate,
    /// True if the datagram came from a real librqbit-utp socket (false: scripted peer/attacker).
    pub real: bool,
}

#[derive(Clone, Debug)]
pub struct Deliver {
    pub ord: u64,
    pub src: SocketAddr,
    pub dst: SocketAddr,
    pub raw: Arc<Vec<u8>>,
    pub pkt: Option<Arc<Pkt>>,
    pub dup: bool,
    /// True if the receiving endpoint is a real librqbit-utp socket.
    pub to_real: bool,
    /// True if the network altered the bytes on the way.
    pub corrupted: bool,
}

#[derive(Clone, Copy, Debug, PartialEq, Eq, Hash)]
pub enum Half {
    R,
    W,
}

#[derive(Clone, Debug, PartialEq, Eq)]
pub enum AppRes {
    Ok(usize),
    Eof,
    Err(String),
    /// The future was dropped / the half was dropped by the script.
    Dropped,
    /// Still pending at the end of the run.
    Pending,
}

#[derive(Clone, Debug, PartialEq, Eq)]
pub enum AppKind {
    ConnectStart,
    ConnectDone,
    AcceptStart,
    AcceptDone,
    /// One poll_write that accepted bytes (Ok(n)) or failed; `off` = stream offset before.
    Write { off: u64 },
    /// A write call started and could not complete immediately (blocked).
    WriteBlocked { off: u64 },
    Flush,
    FlushStart,
    Shutdown,
    ShutdownStart,
    /// One poll_read completion; `off` = stream offset before.
    Read { off: u64 },
    ReadStart { off: u64 },
    /// Content mismatch detected by the reading task at absolute stream offset.
    Mismatch { off: u64 },
    DropHalf,
    Cancel,
    Note(String),
}

#[derive(Clone, Debug)]
pub struct AppEv {
    pub node: usize,
    pub conn: usize,
    pub half: Half,
    pub kind: AppKind,
    pub res: AppRes,
}

#[derive(Clone, Debug)]
pub enum Ev {
    Emit(Emit),
    Deliver(Deliver),
    /// A send attempt that did not put a datagram on the wire (back-pressure or OS error).
    SendFail {
        att: u64,
        src: SocketAddr,
        dst: SocketAddr,
        len: usize,
        kind: &'static str,
        /// What the sender tried to send (reference-parser view).
        pkt: Option<Arc<Pkt>>,
    },
    App(AppEv),
    Probe(ProbeEvent),
    Fault(String),
}

#[derive(Default)]
pub struct History {
    pub evs: Vec<(T, Ev)>,
    pub hash: Fnv,
    pub keep_probes: bool,
    pub panics: Vec<String>,
    pub fault_counts: std::collections::BTreeMap<&'static str, u64>,
}

pub type SharedHist = Arc<Mutex<History>>;

impl History {
    pub fn push(&mut self, ev: Ev) {
        let t = now();
        self.hash_ev(t, &ev);
        self.evs.push((t, ev));
    }

    pub fn count_fault(&mut self, kind: &'static str) {
        *self.fault_counts.entry(kind).or_insert(0) += 1;
    }

    fn hash_ev(&mut self, t: T, ev: &Ev) {
        let h = &mut self.hash;
        h.u64(t);
        match ev {
            Ev::Emit(e) => {
                h.u64(1);
                h.u64(e.ord);
                h.str(&e.src.to_string());
                h.str(&e.dst.to_string());
                h.bytes(&e.raw);
                match e.fate {
                    Fate::Deliver { at, dup_at } => {
                        h.u64(at);
                        h.u64(dup_at.unwrap_or(u64::MAX));
                    }
                    Fate::Dropped(r) => h.u64(1000 + r as u64),
                }
            }
            Ev::Deliver(d) => {
                h.u64(2);
                h.u64(d.ord);
                h.u64(d.dup as u64);
                if d.corrupted {
                    h.bytes(&d.raw);
                }
            }
            Ev::SendFail { att, kind, .. } => {
                h.u64(3);
                h.u64(*att);
                h.str(kind);
            }
            Ev::App(a) => {
                h.u64(4);
                h.u64(a.node as u64);
                h.u64(a.conn as u64);
                h.u64(a.half as u64);
                h.str(&format!("{:?}{:?}", a.kind, a.res));
            }
            Ev::Probe(p) => {
                h.u64(5);
                // Debug formatting of probe events contains only run-determined values.
                h.str(&format!("{:?}", p));
            }
            Ev::Fault(s) => {
                h.u64(6);
                h.str(s);
            }
        }
    }

    pub fn emits(&self) -> impl Iterator<Item = (T, &Emit)> {
        self.evs.iter().filter_map(|(t, e)| match e {
            Ev::Emit(x) => Some((*t, x)),
            _ => None,
        })
    }
    pub fn delivers(&self) -> impl Iterator<Item = (T, &Deliver)> {
        self.evs.iter().filter_map(|(t, e)| match e {
            Ev::Deliver(x) => Some((*t, x)),
            _ => None,
        })
    }
    pub fn apps(&self) -> impl Iterator<Item = (T, &AppEv)> {
        self.evs.iter().filter_map(|(t, e)| match e {
            Ev::App(x) => Some((*t, x)),
            _ => None,
        })
    }
    pub fn probes(&self) -> impl Iterator<Item = (T, &ProbeEvent)> {
        self.evs.iter().filter_map(|(t, e)| match e {
            Ev::Probe(x) => Some((*t, x)),
            _ => None,
        })
    }
}

pub fn fmt_t(t: T) -> String {
    format!("{}.{:03}ms", t / MS, (t % MS) / 1000)
}

/// Human-readable trace of a history (used for replay traces and diagnostics).
pub fn render(h: &History, max: usize, with_probes: bool) -> String {
    let mut out = String::new();
    let mut n = 0;
    for (t, ev) in &h.evs {
        let line = match ev {
            Ev::Emit(e) => format!(
                "EMIT   #{} {}->{} {} ip={} {}",
                e.ord,
                e.src.port(),
                e.dst.port(),
                e.pkt.as_ref().map(|p| p.short()).unwrap_or_else(|| format!("<unparseable {}B>", e.raw.len())),
                e.ip_size,
                match e.fate {
                    Fate::Deliver { at, dup_at } => format!(
                        "-> deliver@{}{}",
                        fmt_t(at),
                        dup_at.map(|d| format!(" dup@{}", fmt_t(d))).unwrap_or_default()
                    ),
                    Fate::Dropped(r) => format!("-> DROPPED({:?})", r),
                }
            ),
            Ev::Deliver(d) => format!(
                "DELIV  #{} {}->{} {}{}",
                d.ord,
                d.src.port(),
                d.dst.port(),
                d.pkt.as_ref().map(|p| p.short()).unwrap_or_else(|| format!("<unparseable {}B>", d.raw.len())),
                if d.dup { " (dup)" } else { "" }
            ),
            Ev::SendFail { att, src, dst, len, kind, .. } => {
                format!("SENDFAIL att{} {}->{} len={} {}", att, src.port(), dst.port(), len, kind)
            }
            Ev::App(a) => format!("APP    n{} c{} {:?} {:?} => {:?}", a.node, a.conn, a.half, a.kind, a.res),
            Ev::Probe(p) => {
                if !with_probes {
                    continue;
                }
                match p {
                    ProbeEvent::ConnPoll(s) => format!(
                        "PROBE  poll {}:{} st={} seq={} lsent={} lcons={} lack={} rwnd={} rto_n={} rec={} mss={}/{} ring={}/{} segb={} segp={} flight={} unseg={} rxw={} cc={} rto={:?} tRTO={:?} tINACT={:?} fin={:?}",
                        s.key.local.port(), s.key.conn_id_send, s.state, s.seq_nr, s.last_sent_seq_nr,
                        s.last_consumed_remote_seq_nr, s.last_sent_ack_nr, s.last_remote_window, s.rto_retransmissions,
                        s.recovering, s.mss, s.max_ss, s.tx_ring_len, s.tx_ring_cap, s.segmented_bytes, s.segmented_packets,
                        s.flight_size, s.unsegmented, s.rx_window, s.cc_window, s.rto, s.t_retransmit, s.t_inactivity, s.finished
                    ),
                    other => format!("PROBE  {:?}", other),
                }
            }
            Ev::Fault(s) => format!("FAULT  {}", s),
        };
        out.push_str(&format!("{:>12} {}\n", fmt_t(*t), line));
        n += 1;
        if n >= max {
            out.push_str("... (truncated)\n");
            break;
        }
    }
    out
}
