//! SimEnv: the library's clock and randomness, owned by the simulator.
use std::sync::{
    Arc,
    atomic::{AtomicU64, Ordering},
};

use librqbit_utp::verif::UtpEnvironment;
use serde::{Deserialize, Serialize};

use crate::util::h3;

#[derive(Clone, Debug, Default, PartialEq, Serialize, Deserialize)]
pub struct EnvCfg {
    pub seed: u64,
    /// The k-th `random_u16()` call returns `forced[k]` while k < forced.len().
    #[serde(default)]
    pub forced: Vec<u16>,
    /// Sub-millisecond clock reads: every `now()` returns the simulated time plus a seeded offset
    /// below this many microseconds (never going backwards). The runtime's timers and the
    /// network tick in whole milliseconds; a real clock read inside a poll is later than the
    /// instant of the event that caused the poll. 0 = off.
    #[serde(default)]
    pub now_jitter_us: u32,
}

pub struct SimEnv {
    cfg: Arc<EnvCfg>,
    calls: Arc<AtomicU64>,
    now_calls: Arc<AtomicU64>,
    last_now: Arc<std::sync::Mutex<Option<std::time::Instant>>>,
}

impl SimEnv {
    pub fn new(cfg: EnvCfg) -> Self {
        SimEnv {
            cfg: Arc::new(cfg),
            calls: Arc::new(AtomicU64::new(0)),
            now_calls: Arc::new(AtomicU64::new(0)),
            last_now: Default::default(),
        }
    }
}

impl UtpEnvironment for SimEnv {
    fn now(&self) -> std::time::Instant {
        let base = tokio::time::Instant::now().into_std();
        if self.cfg.now_jitter_us == 0 {
            return base;
        }
        let k = self.now_calls.fetch_add(1, Ordering::Relaxed);
        let j = h3(self.cfg.seed, k, 99) % (self.cfg.now_jitter_us as u64 * 1000);
        let cand = base + std::time::Duration::from_nanos(j);
        let mut last = self.last_now.lock().unwrap();
        let t = match *last {
            Some(l) if l > cand => l,
            _ => cand,
        };
        *last = Some(t);
        t
    }

    fn copy(&self) -> Self {
        SimEnv {
            cfg: self.cfg.clone(),
            calls: self.calls.clone(),
            now_calls: self.now_calls.clone(),
            last_now: self.last_now.clone(),
        }
    }

    fn random_u16(&self) -> u16 {
        let k = self.calls.fetch_add(1, Ordering::Relaxed);
        match self.cfg.forced.get(k as usize) {
            Some(v) => *v,
            None => h3(self.cfg.seed, k, 77) as u16,
        }
    }
}
