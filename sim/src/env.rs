//! SimEnv: the library's clock and randomness, owned by the simulator.
use std::sync::{
    Arc,
    atomic::{AtomicU64, Ordering},
};

use librqbit_utp::verif::UtpEnvironment;
use serde::{Deserialize, Serialize};

use crate::util::h3;

#[derive(Clone, Debug, Default, PartialEq, Serialize, Deserialize)]
pub struct EnvCfg {
    pub seed: u64,
    /// The k-th `random_u16()` call returns `forced[k]` while k < forced.len().
    #[serde(default)]
    pub forced: Vec<u16>,
}

pub struct SimEnv {
    cfg: Arc<EnvCfg>,
    calls: Arc<AtomicU64>,
}

impl SimEnv {
    pub fn new(cfg: EnvCfg) -> Self {
        SimEnv {
            cfg: Arc::new(cfg),
            calls: Arc::new(AtomicU64::new(0)),
        }
    }
}

impl UtpEnvironment for SimEnv {
    fn now(&self) -> std::time::Instant {
        tokio::time::Instant::now().into_std()
    }

    fn copy(&self) -> Self {
        SimEnv {
            cfg: self.cfg.clone(),
            calls: self.calls.clone(),
        }
    }

    fn random_u16(&self) -> u16 {
        let k = self.calls.fetch_add(1, Ordering::Relaxed);
        match self.cfg.forced.get(k as usize) {
            Some(v) => *v,
            None => h3(self.cfg.seed, k, 77) as u16,
        }
    }
}
