#!/bin/sh
# usage: tools/allseeds.sh "1 2 3" "C01 C02 ..."  -> one summary line per (seed, property)
for s in $1; do for p in $2; do
  out=$(VERIF_SEED=$s ./check $p 2>&1); rc=$?
  echo "seed=$s $p rc=$rc $(echo "$out" | grep -c '^VIOLATION') viol | $(echo "$out" | tail -1 | cut -c1-160)"
  echo "$out" | grep -A1 '^VIOLATION' | grep 'tag=' | cut -c1-300
done; done
