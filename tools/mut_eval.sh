#!/bin/sh
# usage: tools/mut_eval.sh <patch.diff> "<props>" [seed]
# Applies a planted change to /repo, runs the quick checks of the listed properties, restores /repo.
patch=$1; props=$2; seed=${3:-20260925}
if [ -n "$(git -C /repo status --porcelain)" ]; then echo "/repo not clean"; exit 2; fi
git -C /repo apply "$patch" || { echo "patch does not apply"; exit 2; }
for p in $props; do
  out=$(VERIF_SEED=$seed ./check $p 2>&1); rc=$?
  tags=$(echo "$out" | grep -A1 '^VIOLATION' | grep -o 'tag=[a-z0-9-]*' | sort -u | tr '\n' ' ')
  echo "MUT $(basename $(dirname $patch))/$(basename $(dirname $(dirname $patch))) $p rc=$rc $tags| $(echo "$out" | tail -1 | cut -c1-120)"
done
git -C /repo checkout -- .
