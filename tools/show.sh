#!/bin/sh
# usage: tools/show.sh <replay-basename> [lines]
python3 -c "
import json,sys
d=json.load(open('/verif/replays/$1.json'))
print('####', d['message']); print(d['minimisation'])
sc=d['scenario']
print('opts', json.dumps([n['opts'] for n in sc['nodes']])); 
if sc.get('peer'): print('peer', json.dumps(sc['peer'])[:${3:-900}])
print('acc', json.dumps(sc['accepts'])[:400]); print('con', json.dumps(sc['connects'])[:400]); print('glob', sc['global'])
ne=sc['net']; print('net', {k:v for k,v in ne.items() if v not in (None,0,0.0,[],False) })
"
grep -v -E "PROBE  (Cc|Rto|Socket|Parsed)" /verif/replays/$1.trace.txt | grep -E "EMIT|DELIV|APP|FAULT|Conn|SENDFAIL" | head -${2:-30} | cut -c1-220
