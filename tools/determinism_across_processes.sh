#!/bin/sh
# usage: tools/determinism_across_processes.sh "<props>" [scale]
# Runs every named check twice in separate processes with different worker counts (3 and 16)
# and compares the order-independent digest of (run seed, event hash) over all runs. Equal
# digests mean that every simulated run produced the same event history in both processes.
props=${1:-"C01 C02 C03 C08 C10 C12 C13 C14 C17 C19"}; scale=${2:-0.25}
cd /verif && ./check C01 --replay /dev/null >/dev/null 2>&1   # builds sim/ once
rc=0
for p in $props; do
  a=$(VERIF_DIR=/verif ./sim/target/release/utpsim check $p --scale $scale --threads 3 2>/dev/null | grep -o 'agg=[0-9a-f]*' | tail -1)
  b=$(VERIF_DIR=/verif ./sim/target/release/utpsim check $p --scale $scale --threads 16 2>/dev/null | grep -o 'agg=[0-9a-f]*' | tail -1)
  if [ -n "$a" ] && [ "$a" = "$b" ]; then echo "DETERMINISM $p ok $a (3 workers vs 16 workers, scale $scale)"; else echo "DETERMINISM $p DIVERGED $a vs $b"; rc=1; fi
done
exit $rc
