#!/usr/bin/env python3
"""Regenerates /verif/MANIFEST.json from the per-property table below."""
import json, subprocess
props = [json.loads(l) for l in open('/verif/properties.jsonl')]
ids = [p['id'] for p in props]

HOOK_COMMITS = ["f440103", "32328cf", "9e3b722", "c3bcd33", "9234b86"]

# property -> (level text, level note, technique, design_ref)
SIM = "deterministic simulation with fault injection"
TRUST = "Trusted: the simulator (SimNet, scenario generators, oracles, independent codec), tokio's paused clock and timer wheel, single-threaded task-level interleaving. Sampling, not proof. "
CLAIMED = {
 "C01": ("Seeded search over simulated duplex runs of two real sockets under drop/dup/reorder/stale/black-hole/EMSGSIZE/back-pressure/partition/suspend faults with keyed (PRF) payloads; every read is compared online with the written stream.",
         TRUST + "Corruption faults are excluded (uTP has no checksum). Genuine defect F1 (delivered MTU probe re-segmented) is a known finding.",
         SIM + ": seeded search, online prefix oracle against the written PRF stream", "DESIGN.md §3 C01"),
 "C02": ("(a) fair-lossy liveness: budgeted per-identity drops, duplication, reordering, bounded delay on an established connection, random placement plus systematic single-/pair-drop placement over every datagram ordinal; oracle: all accepted bytes read at the peer, flush/shutdown return, nothing parked, by the longest legitimate recovery time after the last fault. (b) loss-free fixed-latency promptness: wire-silence bound 2L+40 ms, idle write/shutdown emit at the same instant, flush wakes at the covering ACK.",
         TRUST + "Premise checks (connector writes first; retransmission cap/inactivity sized for the budget) give no verdict when not met. Known finding F6 (no persist timer) and F1.",
         SIM + ": seeded search + systematic single/pair fault placement, bounded-liveness and timing oracles over the recorded history", "DESIGN.md §3 C02"),
 "C03": ("Duplex runs with a termination fault (cut forever, kill, forged RESET, cancel, FIN-exchange loss, cut at the very instant flush/shutdown returned Ok) at a seeded instant inside in-flight activity; oracles: success means delivered, EOF only after the bytes preceding a delivered FIN, failures surface within the configured bound (same instant for RESET/cancel). A second family races the application's close against the peer's last packets and aborts right behind a flush/shutdown.",
         TRUST + "An endpoint that is purely idle when its peer vanishes has no obligation. Back-pressure runs get 1 s slack for 'same instant'. Known findings F1, F6.",
         SIM + ": seeded search over termination-fault instants, history oracles on API results vs wire", "DESIGN.md §3 C03"),
 "C08": ("Many open-transfer-close cycles on one socket pair against max_live_vsocks 1-4 with loss concentrated on closing packets, RESET, cancel, suspend, partitions; oracles: task ends within B(config) of the application letting go, table size == live tasks, silence after task end, no spurious TooManyActiveConnections, cancellation ends all tasks at that instant and every call on a stream half pending at, or made after, the cancellation returns. Also run on the listener/connectors family of C13 (abandoned accepts).",
         TRUST + "Obligation only for the side whose application let go (or failed). Known finding F6.",
         SIM + ": seeded search over connection life cycles, probe (task create/drop, table size) + wire + API oracles", "DESIGN.md §3 C08"),
 "C11": ("(i) every datagram emitted in every run parsed by an independent BEP-29 parser incl. connection-id-owed-to-direction; (ii) library header codec round-trips every emitted header byte for byte; (iii) differential accept/reject between the socket's own verdict (hook H3) and the reference parser on every delivered datagram incl. seeded corruptions (bit flips in type/version/extension bytes/header fields, truncation, garbage, payload toggling, unknown extensions); unknown extensions must not move the payload boundary (C01 oracle under extension insertion); (iv) scripted-sender world: what every serialised selective ACK says equals what the endpoint holds, incl. holes followed by 33-66 packets (bitmap lengths across the 32- and 64-bit boundaries).",
         TRUST + "NOT claimed: totality over all byte strings by structural enumeration (a pure function of its input; only the population the simulated network delivers is covered).",
         SIM + ": seeded corruption faults on the simulated wire, differential parser oracle", "DESIGN.md §3 C11"),
 "C14": ("Duplex transfers over size-black-holing / EMSGSIZE paths at every link MTU / path MTU / address family, asymmetric link MTUs, loss restricted to non-probe datagrams; oracles: no datagram above the configured link MTU, at most one oversized probe and it is the newest segment, stream integrity on the black-holing path, convergence to the largest fitting payload within a logarithmic number of probes (loss-free-for-probes family); a probe is never given up in the poll that handled an acknowledgement of new data (family with the round trip at the retransmission time-out and seeded sub-millisecond clock reads).",
         TRUST + "Convergence is judged only when probes and their ACKs are spared (a lost probe/ACK is indistinguishable from 'too big' by design). Known finding F1.",
         SIM + ": seeded search over MTU configurations and size faults, wire-size model oracle", "DESIGN.md §3 C14"),
 "C15": ("In situ: every CongestionController call made by every running connection (hook H4) in lossy duplex, black-hole and 'extremes' families (0 ms and multi-second RTT, hours-long suspend jumps, long back-off chains, zero/tiny peer windows, MSS steps) is checked: bounds, finite values, loss reaction and ssthresh = max(0.7 w, 2 mss), slow-start growth <= acked bytes, MSS change keeps bytes.",
         TRUST + "Only event sequences reachable through a connection are explored (the controller is not driven directly with generated numbers).",
         SIM + ": invariants over controller events recorded inside simulated connections", "DESIGN.md §3 C15"),
 "C16": ("In situ: every RttEstimator sample/timeout of every connection (hook H5): 200 ms <= RTO <= 60 s, RTO == clamp(srtt + max(4 rttvar, 10 ms)) after a sample, doubling on timeout, srtt within [min,max] of samples; extremes via 0-latency nets, multi-second delays, suspend jumps, back-off chains to the 60 s cap.",
         TRUST + "Only sample sequences reachable through a connection are explored.",
         SIM + ": invariants over estimator events recorded inside simulated connections", "DESIGN.md §3 C16"),
 "C04": ("Scripted raw-uTP peer as sender (independent codec) against one real endpoint: in-window data in arbitrary order / duplicated / overlapping, tiny receive buffers, slow readers, mid-stream FIN, hostile sequence numbers; oracles over every datagram the endpoint emits: ack_nr is the in-order prefix, SACK bits only for packets it holds, advertised window never exceeds free buffer space and never shrinks below data already invited, bytes handed to read equal the in-order stream exactly once.",
         TRUST + "The scripted peer and its receive-buffer model are the reference. Known findings F13 (window ignores a partially read message) and F14 (SACK bits shifted after a mid-stream FIN).",
         SIM + ": scripted-peer histories, wire oracle against a reference receiver model", "DESIGN.md §3 C04"),
 "C05": ("Scripted raw-uTP peer as receiver producing seeded ACK/window histories (growing, shrinking, zero, re-opening, withheld, stale, selective; carried by bare state packets or by copies of the peer's own data packet); oracle at every first transmission of a sequence number: outstanding bytes <= window most recently advertised, nothing new into a zero window, <= 2 segments + acked bytes before the first loss event, one segment after an RTO until new data is acknowledged.",
         TRUST + "Loss-recovery polls are exempt as the property states. Known finding F15 (the retransmission-timer path transmits a never-sent segment regardless of the window).",
         SIM + ": scripted-peer ACK/window histories, wire oracle on first transmissions", "DESIGN.md §3 C05"),
 "C06": ("Scripted receiver with loss, withheld / duplicate / selective / stale ACKs, plus passive clauses on lossy duplex runs; oracles: timeout retransmission not before the minimum RTO after the timer can last have been (re)started, doubling gaps within 200 ms..60 s, fast retransmit at the third duplicate ACK or SACK evidence (outside timeout recovery), retransmission cap ends the connection with an application-visible error, nothing acknowledged is re-emitted, stable bytes per sequence number (only a never-acknowledged probe is re-cut, with a consistent prefix).",
         TRUST + "Which emissions are timeout retransmissions is read from the end-of-poll snapshot (hook H2). A segment larger than the link's smallest segment size is treated as a possible probe. Known findings F1, F15.",
         SIM + ": scripted-peer loss/ACK histories, wire + timing oracle", "DESIGN.md §3 C06"),
 "C07": ("Paced compliant scripted sender (one datagram per virtual instant) with seeded gaps, duplicates, reordering, FIN (also repeated while the endpoint's own FIN is unacknowledged), reader stalls; a second family lets the endpoint's socket refuse sends now and then (deadlines extended by the refusals in between); oracles: every in-order packet is acknowledged within 40 ms, immediately on a duplicate / out-of-order / gap-filling packet, two full segments or FIN, no ST_STATE without something new to say, a re-opened zero window is announced at once (also when one large packet both grew the segment size and closed the window, with a reader that drains within milliseconds or seconds; also with the endpoint's own sender blocked by a closed peer window).",
         TRUST + "Timing clauses are judged only in the paced family where 'same instant' is unambiguous.",
         SIM + ": scripted-peer paced histories, timing oracle on emitted ACKs", "DESIGN.md §3 C07"),
 "C17": ("Scripted peer in both roles drives every teardown and handshake corner (SYN-ACK retry and give-up, FIN before/after data, simultaneous close, FIN loss, RESET in every state, duplicate SYN, data after FIN, hostile acknowledgement numbers) plus duplex close races; oracles over wire + API + end-of-poll state: legal state sequence, SYN-ACK retries bounded, FIN only after all data was sent and numbered after it, FIN acknowledged only in sequence, RESET surfaces as an error and silences the endpoint, LastAck waits (or not) as configured; while the endpoint's FIN is out and unacknowledged its retransmission timer is armed at the end of every poll, and a FIN that is due (application closed, nothing left to send or acknowledge) is sent in that poll.",
         TRUST + "Rules that need a well-behaved peer are gated on the script not being hostile. A RESET that reaches a connection whose close handshake is complete is moot. Known finding F29 (a probe re-cut after the FIN was sent takes the FIN's number; thorough tier).",
         SIM + ": scripted-peer teardown histories, state-sequence oracle", "DESIGN.md §3 C17"),
 "C18": ("Scripted receiver with seeded ACK timing and windows (in the Nagle family it also sends data of its own, so the endpoint owes acknowledgements) against seeded small-write patterns, both Nagle settings; oracles: (on) no first transmission smaller than the usable segment size while earlier data is un-acknowledged unless the window limits it, held bytes leave at the instant the pipe drains; (off) nothing stays un-segmented at the end of a poll unless window / congestion control / a probe / recovery holds it.",
         TRUST + "Usable segment size = min(what the wire proves, the sender's own segment size from hook H2). Known finding F21 (segments pre-cut to a stale window).",
         SIM + ": scripted-peer ACK timing, wire oracle on first-transmission sizes", "DESIGN.md §3 C18"),
 "C19": ("Scripted receiver that acknowledges slowly, in bursts, selectively or not at all, against writers with seeded initial/maximum transmit-buffer sizes (tiny rings, growth steps, wrapped rings); oracles: accepted - acknowledged bytes <= max(initial, maximum), ring capacity <= limit, a blocked write completes at the instant an ACK frees space, every payload byte on the wire equals the written stream at its offset (growth keeps order). Shapes include a peer whose acknowledgements ride only on retransmitted copies of its own data packet, and a writer that abandons a blocked write and polls again through a fresh waker.",
         TRUST + "Acknowledged = longest cumulatively-or-selectively acknowledged prefix (what a ring can release). Known finding F1.",
         SIM + ": scripted-peer ACK schedules, conservation oracle accepted/acked/wire bytes", "DESIGN.md §3 C19"),
 "C09": ("Metamorphic pairs of simulated runs: the same scenario (configuration, workload, fault decisions by datagram ordinal) is executed with small initial sequence numbers / connection ids and again with numbers at or near the 16-bit wrap, the sign boundary, 0 and 65535 (hook: UtpEnvironment::random_u16 forced); the two packet traces, fates and application histories must be identical after relabelling by the difference of the initial values. A wide-window family (loss-free, 12-92 byte segments, 1 MiB buffers, long fat pipe) puts thousands of packets in the queue when the numbers wrap.",
         TRUST + "NOT claimed: the second sentence's 'for the arithmetic itself, all pairs of 16-bit values' by exhaustive enumeration - a pure function of its input is not a simulation target; the arithmetic is exercised only through the distances running connections produce (up to several thousand packets).",
         SIM + ": metamorphic comparison of two seeded simulated runs differing only in the environment's random_u16 stream", "DESIGN.md §3 C09"),
 "C10": ("A raw attacker endpoint injects seeded hostile datagrams at a real socket while honest connections run on it and a later connect/accept pair probes the service: garbage, truncations, bad version/type, absurd seq/ack/window values, ACKs and SACKs of data never sent, SACK extensions of any length (0..255), unknown / overrunning extension chains, types illegal in the state, from its own address, from unbound addresses and with the honest peer's spoofed address, aimed at unknown ids, at the attacker's own established connection (incl. data at the edge of the reassembly queue, acknowledgements with SACK bitmaps up to 32000 packets late, data riding right behind the SYN), next to (±1..3) the honest connection's id, and a spoofed SYN that clashes with the target's pending connect; in some runs the sockets' send buffers are full now and then (back-pressure). Oracles: no panic, no 'bug:' error anywhere, connect/accept never report a dead dispatcher, receive/transmit buffering and socket tables bounded, every honest connection completes intact.",
         TRUST + "NOT claimed: 'for all byte strings' by enumeration (only the seeded population is covered; the parser differential is C11). A spoofed datagram that names exactly the honest connection's id, and a spoofed SYN that takes the id of the honest peer's next connection, are attacks on that connection itself and exempt from the isolation oracle. A SYN flood beyond the accept calls provided is not generated. Whether a forged datagram names an honest connection is decided from the wire (a random id can hit it by luck); two honest sockets picking adjacent ids clash among themselves and are not judged. Known finding F31 (send wake-up lost when several connections share a full socket).",
         SIM + ": seeded hostile-datagram injection (faults) into simulated honest conversations, crash/bug/isolation/bound oracles", "DESIGN.md §3 C10"),
 "C12": ("2-4 real sockets with 2-28 simultaneous connections in both directions (several per address pair), per-stream keyed payloads, colliding connection-id counters (every socket starts at the same id, ids at 0/65535), connection limits 1-10, loss/dup/reorder or loss-free, abandoned accept calls queued in front of live ones; oracles: every stream intact (per-connection C01), an accepted stream surfaces on the socket it was addressed to and once, receive connection ids of simultaneously live connections between one address pair are unique (hook H6), live connections never exceed the limit, in loss-free runs every established connection completes undisturbed by refused attempts.",
         TRUST + "Known finding F1.",
         SIM + ": seeded search over concurrent connection schedules, per-connection stream oracle + id-uniqueness and limit invariants over probes", "DESIGN.md §3 C12"),
 "C13": ("One listener and 1-14 connector sockets, up to 54 connects in bursts, accept calls before / after / long after the SYNs, cancelled connect and accept futures, duplicate SYNs (incl. duplication-only runs that lose nothing), listener connection limits; oracles: a successful connect surfaces at exactly one accept and the pair is wired together (token + per-connection C01) and, on a network that loses nothing, stays so until both applications closed (no call on either stream fails), requests are handed over in SYN arrival order and accept calls served in call order, backlog <= 32 and RESET only while it is full, no SYN vanishes (accepted, queued or refused), a failed connect is never due to a leaked connecting slot, no slot held at the end, no request left queued while an accept waits.",
         TRUST + "Arrival-order clause judged only when the network delivered no SYN twice. Known finding F1.",
         SIM + ": seeded search over connect/accept/cancel interleavings, pairing/order/conservation oracles over API + wire + socket probes", "DESIGN.md §3 C13"),
}
NOT_APPLICABLE = {}

checks = []
for pid in ids:
    if pid in CLAIMED:
        text, note, tech, ref = CLAIMED[pid]
        checks.append({
            "property_id": pid,
            "quick_cmd": f"./check {pid} --tier quick",
            "thorough_cmd": f"./check {pid} --tier thorough",
            "evidence_file": f"/verif/evidence/{pid}.json",
            "replay_cmd_template": f"./check {pid} --replay {{path}}",
            "engine": "utpsim",
            "level_claimed": {"category": "exploration", "text": text, "design_ref": ref},
            "level_note": note,
            "technique": tech,
        })
na = [{"property_id": pid, "reason": NOT_APPLICABLE.get(pid, "not claimed yet: its check is still being built in this round (no oracle registered)")} for pid in ids if pid not in CLAIMED]
m = {
 "version": 1,
 "setup_cmd": "cd /verif/sim && CARGO_NET_OFFLINE=true cargo build --release --offline",
 "hooks": {
   "guard": "librqbit_utp_verif",
   "enable": "rustc --cfg librqbit_utp_verif, set in /verif/sim/.cargo/config.toml; /repo is compiled through the shadow manifest /verif/sim/shadow/Cargo.toml ([lib] path = /repo/src/lib.rs), so /repo/Cargo.toml dependencies and Cargo.lock are untouched",
   "baseline_off_cmd": "cd /repo && cargo nextest run --workspace --no-fail-fast --test-threads 8 --offline",
   "source_commits": HOOK_COMMITS,
   "add_only": True,
 },
 "engines": [{"name": "utpsim", "path": "/verif/sim", "serves_properties": sorted(CLAIMED),
   "kind_free_text": "deterministic discrete-event simulation of the real library (tokio paused clock, SimNet transport with seeded fault injection, seeded scheduler via tokio rng_seed), seeded search over scenarios, history oracles, minimised replay files"}],
 "checks": checks,
 "not_applicable": na,
 "notes": "All checks share one binary (/verif/sim, `utpsim`). `./check <id>` rebuilds it against /repo's current working tree first. Exit 0/1/2 = held / VIOLATION / harness error. Known findings: /verif/known_findings.json.",
}
if not na:
    del m["not_applicable"]
json.dump(m, open('/verif/MANIFEST.json', 'w'), indent=1)
import jsonschema
jsonschema.validate(m, json.load(open('/root/.vp/MANIFEST.schema.json')))
print("MANIFEST ok:", len(checks), "claimed,", len(na), "unclaimed")
