#!/usr/bin/env python3
"""Regenerates /verif/MANIFEST.json from the per-property table below."""
import json, subprocess
props = [json.loads(l) for l in open('/verif/properties.jsonl')]
ids = [p['id'] for p in props]

HOOK_COMMITS = ["f440103", "32328cf", "9e3b722", "c3bcd33"]

# property -> (level text, level note, technique, design_ref)
CLAIMED = {
 "C01": ("Seeded search over simulated duplex runs of two real sockets under drop/dup/reorder/stale/black-hole/EMSGSIZE/back-pressure/partition/suspend faults with keyed (PRF) payloads; every read is compared online with the written stream. Sampling, not proof.",
         "Trusted: the simulator (SimNet, scenario generator, oracle), tokio's paused clock, single-threaded task-level interleaving. Corruption faults are excluded (uTP has no checksum). One genuine defect is recorded as known finding F1 (delivered MTU probe re-segmented).",
         "deterministic simulation with fault injection: seeded search, online prefix oracle against the written PRF stream", "DESIGN.md §3 C01"),
}
NOT_APPLICABLE = {}

checks = []
for pid in ids:
    if pid in CLAIMED:
        text, note, tech, ref = CLAIMED[pid]
        checks.append({
            "property_id": pid,
            "quick_cmd": f"./check {pid} --tier quick",
            "thorough_cmd": f"./check {pid} --tier thorough",
            "evidence_file": f"/verif/evidence/{pid}.json",
            "replay_cmd_template": f"./check {pid} --replay {{path}}",
            "engine": "utpsim",
            "level_claimed": {"category": "exploration", "text": text, "design_ref": ref},
            "level_note": note,
            "technique": tech,
        })
na = [{"property_id": pid, "reason": NOT_APPLICABLE.get(pid, "not claimed yet: its check is still being built in this round (no oracle registered)")} for pid in ids if pid not in CLAIMED]
m = {
 "version": 1,
 "setup_cmd": "cd /verif/sim && CARGO_NET_OFFLINE=true cargo build --release --offline",
 "hooks": {
   "guard": "librqbit_utp_verif",
   "enable": "rustc --cfg librqbit_utp_verif, set in /verif/sim/.cargo/config.toml; /repo is compiled through the shadow manifest /verif/sim/shadow/Cargo.toml ([lib] path = /repo/src/lib.rs), so /repo/Cargo.toml dependencies and Cargo.lock are untouched",
   "baseline_off_cmd": "cd /repo && cargo nextest run --workspace --no-fail-fast --test-threads 8 --offline",
   "source_commits": HOOK_COMMITS,
   "add_only": True,
 },
 "engines": [{"name": "utpsim", "path": "/verif/sim", "serves_properties": sorted(CLAIMED),
   "kind_free_text": "deterministic discrete-event simulation of the real library (tokio paused clock, SimNet transport with seeded fault injection, seeded scheduler via tokio rng_seed), seeded search over scenarios, history oracles, minimised replay files"}],
 "checks": checks,
 "not_applicable": na,
 "notes": "All checks share one binary (/verif/sim, `utpsim`). `./check <id>` rebuilds it against /repo's current working tree first. Exit 0/1/2 = held / VIOLATION / harness error. Known findings: /verif/known_findings.json.",
}
if not na:
    del m["not_applicable"]
json.dump(m, open('/verif/MANIFEST.json', 'w'), indent=1)
import jsonschema
jsonschema.validate(m, json.load(open('/root/.vp/MANIFEST.schema.json')))
print("MANIFEST ok:", len(checks), "claimed,", len(na), "unclaimed")
