#!/bin/bash
# usage: tools/mut_matrix.sh <out-file> <scale> <dir-with-mutations: */patch.diff> 
# Runs every planted change against every check at reduced scale (cross matrix). Evidence files are
# rewritten by these runs: re-run the real checks afterwards.
out=$1; scale=$2; dir=$3
cd /verif
for d in $(ls -d $dir/*/); do
  n=$(basename $d)
  if [ -n "$(git -C /repo status --porcelain)" ]; then echo "/repo not clean"; exit 2; fi
  git -C /repo apply $d/patch.diff || { echo "MATRIX $n patch-does-not-apply" >> $out; continue; }
  (cd sim && cargo build --release --offline > build.log 2>&1) || { echo "MATRIX $n build-failed" >> $out; git -C /repo checkout -- .; continue; }
  line="MATRIX $n"
  for p in C01 C02 C03 C04 C05 C06 C07 C08 C09 C10 C11 C12 C13 C14 C15 C16 C17 C18 C19; do
    o=$(./sim/target/release/utpsim check $p --scale $scale 2>&1); rc=$?
    if [ $rc -eq 1 ]; then line="$line $p"; fi
  done
  echo "$line" >> $out
  git -C /repo checkout -- .
done
echo MATRIX-DONE >> $out
